//go:build verif

package producer

import "net"

// VerifConn exposes the raw-socket producer's current connection (for kernel-state barriers).
func VerifConn(p *Producer) net.Conn {
	if rs, ok := p.MQ.(*RawSocket); ok {
		return rs.connection
	}
	return nil
}

// Package vatomic: sync/atomic with a scheduling point before every load, store and CAS.
// Add operations commute with each other and vflow never uses their results, so they are not
// scheduling points (they remain real atomics: the race detector still sees them).
package vatomic

import (
	"sync/atomic"

	"github.com/EdgeCast/vflow/zzverif/sched"
)

func AddInt32(p *int32, d int32) int32 { return atomic.AddInt32(p, d) }
func AddInt64(p *int64, d int64) int64 { return atomic.AddInt64(p, d) }
func AddUint32(p *uint32, d uint32) uint32 {
	return atomic.AddUint32(p, d)
}
func AddUint64(p *uint64, d uint64) uint64 {
	return atomic.AddUint64(p, d)
}
func LoadInt32(p *int32) int32        { sched.Point("atomic.LoadInt32"); return atomic.LoadInt32(p) }
func LoadInt64(p *int64) int64        { sched.Point("atomic.LoadInt64"); return atomic.LoadInt64(p) }
func LoadUint32(p *uint32) uint32     { sched.Point("atomic.LoadUint32"); return atomic.LoadUint32(p) }
func LoadUint64(p *uint64) uint64     { sched.Point("atomic.LoadUint64"); return atomic.LoadUint64(p) }
func StoreInt32(p *int32, v int32)    { sched.Point("atomic.StoreInt32"); atomic.StoreInt32(p, v) }
func StoreInt64(p *int64, v int64)    { sched.Point("atomic.StoreInt64"); atomic.StoreInt64(p, v) }
func StoreUint32(p *uint32, v uint32) { sched.Point("atomic.StoreUint32"); atomic.StoreUint32(p, v) }
func StoreUint64(p *uint64, v uint64) { sched.Point("atomic.StoreUint64"); atomic.StoreUint64(p, v) }
func CompareAndSwapInt32(p *int32, o, n int32) bool {
	sched.Point("atomic.CAS")
	return atomic.CompareAndSwapInt32(p, o, n)
}
func CompareAndSwapUint32(p *uint32, o, n uint32) bool {
	sched.Point("atomic.CAS")
	return atomic.CompareAndSwapUint32(p, o, n)
}

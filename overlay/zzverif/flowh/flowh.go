// Package flowh adapts the real IPFIX / NetFlow v9 decoders to the reference types and
// builds the field-kind alphabet from the information model found in the tree.
package flowh

import (
	"fmt"
	"net"
	"sort"

	"github.com/EdgeCast/vflow/ipfix"
	netflow9 "github.com/EdgeCast/vflow/netflow/v9"
	"github.com/EdgeCast/vflow/zzverif/ref"
)

// PEN used for the harness' enterprise elements.
const PEN = 29305

// AType maps the implementation's type enumeration to the reference's (by name of the
// exported constants only).
func AType(t ipfix.FieldType) ref.AType {
	switch t {
	case ipfix.Uint8:
		return ref.TU8
	case ipfix.Uint16:
		return ref.TU16
	case ipfix.Uint32:
		return ref.TU32
	case ipfix.Uint64:
		return ref.TU64
	case ipfix.Int8:
		return ref.TI8
	case ipfix.Int16:
		return ref.TI16
	case ipfix.Int32:
		return ref.TI32
	case ipfix.Int64:
		return ref.TI64
	case ipfix.Float32:
		return ref.TF32
	case ipfix.Float64:
		return ref.TF64
	case ipfix.Boolean:
		return ref.TBool
	case ipfix.MacAddress:
		return ref.TMac
	case ipfix.OctetArray:
		return ref.TOctetArray
	case ipfix.String:
		return ref.TString
	case ipfix.DateTimeSeconds:
		return ref.TDTSec
	case ipfix.DateTimeMilliseconds:
		return ref.TDTMilli
	case ipfix.DateTimeMicroseconds:
		return ref.TDTMicro
	case ipfix.DateTimeNanoseconds:
		return ref.TDTNano
	case ipfix.Ipv4Address:
		return ref.TIPv4
	case ipfix.Ipv6Address:
		return ref.TIPv6
	}
	return ref.TUnknown
}

var implType = map[ref.AType]ipfix.FieldType{ref.TI8: ipfix.Int8, ref.TI16: ipfix.Int16, ref.TI32: ipfix.Int32, ref.TI64: ipfix.Int64,
	ref.TF32: ipfix.Float32, ref.TU32: ipfix.Uint32, ref.TString: ipfix.String, ref.TU8: ipfix.Uint8, ref.TBool: ipfix.Boolean, ref.TF64: ipfix.Float64}

// Enterprise / private elements added to the exported model so that every Interpret
// branch is reachable (the IANA table has no signed or float32 element).
// id -> type, registered under PEN (IPFIX) and under enterprise 0 ids 30000+ (NetFlow v9).
var extra = []struct {
	id uint16
	t  ref.AType
}{{1, ref.TI8}, {2, ref.TI16}, {3, ref.TI32}, {4, ref.TI64}, {5, ref.TF32}, {6, ref.TU32}, {7, ref.TString}, {8, ref.TBool}, {9, ref.TF64}}

// InstallExtra registers the private elements. Idempotent.
func InstallExtra() {
	for _, e := range extra {
		ipfix.InfoModel[ipfix.ElementKey{EnterpriseNo: PEN, ElementID: e.id}] = ipfix.InfoElementEntry{FieldID: e.id, Name: fmt.Sprintf("verif%d", e.id), Type: implType[e.t]}
		ipfix.InfoModel[ipfix.ElementKey{EnterpriseNo: 0, ElementID: 30000 + e.id}] = ipfix.InfoElementEntry{FieldID: 30000 + e.id, Name: fmt.Sprintf("verifv9_%d", e.id), Type: implType[e.t]}
	}
}

// ElemByType returns, for every abstract type present among the IANA (PEN 0, id < 30000)
// elements of the model, the lowest element id of that type.
func ElemByType() map[ref.AType]uint16 {
	out := map[ref.AType]uint16{}
	var keys []int
	for k := range ipfix.InfoModel {
		if k.EnterpriseNo == 0 && k.ElementID < 30000 {
			keys = append(keys, int(k.ElementID))
		}
	}
	sort.Ints(keys)
	for _, id := range keys {
		t := AType(ipfix.InfoModel[ipfix.ElementKey{EnterpriseNo: 0, ElementID: uint16(id)}].Type)
		if _, ok := out[t]; !ok {
			out[t] = uint16(id)
		}
	}
	return out
}

// Kind is a member of the field alphabet: an element + an encoding class.
type Kind struct {
	Name    string
	F       ref.Field
	VarLen  int  // for Len==65535: the value length used
	LongPfx bool // force 3-octet prefix
}

// Kinds builds the alphabet. v9: no enterprise, no variable length.
func Kinds(v9 bool, small bool) []Kind {
	InstallExtra()
	by := ElemByType()
	var ks []Kind
	add := func(name string, id uint16, pen uint32, l uint16, t ref.AType, vl int, lp bool) {
		ks = append(ks, Kind{name, ref.Field{ID: id, PEN: pen, Len: l, Type: t}, vl, lp})
	}
	order := []ref.AType{ref.TU8, ref.TU16, ref.TU32, ref.TU64, ref.TF64, ref.TBool, ref.TMac, ref.TIPv4, ref.TIPv6, ref.TDTSec, ref.TDTMilli, ref.TDTMicro, ref.TDTNano}
	for _, t := range order {
		if id, ok := by[t]; ok {
			if small && (t == ref.TDTMicro || t == ref.TDTNano || t == ref.TDTMilli || t == ref.TU8 || t == ref.TBool) {
				continue
			}
			add(ref.ATypeNames[t], id, 0, uint16(t.NaturalLen()), t, 0, false)
		}
	}
	// private elements: signed, float32 (enterprise for IPFIX, id 30000+ for v9)
	for _, e := range extra {
		if small && e.t != ref.TI16 && e.t != ref.TF32 {
			continue
		}
		if e.t == ref.TString {
			continue
		}
		if v9 {
			add("x"+ref.ATypeNames[e.t], 30000+e.id, 0, uint16(e.t.NaturalLen()), e.t, 0, false)
		} else {
			add("e"+ref.ATypeNames[e.t], e.id, PEN, uint16(e.t.NaturalLen()), e.t, 0, false)
		}
	}
	// reduced-size encodings -> raw octets
	red := []struct {
		t ref.AType
		l uint16
	}{{ref.TU16, 1}, {ref.TU32, 3}, {ref.TU64, 4}, {ref.TU64, 1}, {ref.TF64, 4}, {ref.TDTMilli, 4}}
	for i, r := range red {
		if small && i > 1 {
			break
		}
		if id, ok := by[r.t]; ok {
			add(fmt.Sprintf("%s@%d", ref.ATypeNames[r.t], r.l), id, 0, r.l, r.t, 0, false)
		}
	}
	if v9 {
		add("xsigned32@2", 30003, 0, 2, ref.TI32, 0, false)
	} else {
		add("esigned32@2", 3, PEN, 2, ref.TI32, 0, false)
	}
	// fixed-length strings / octet arrays
	if id, ok := by[ref.TString]; ok {
		add("string/1", id, 0, 1, ref.TString, 0, false)
		add("string/5", id, 0, 5, ref.TString, 0, false)
	}
	if id, ok := by[ref.TOctetArray]; ok {
		add("octets/3", id, 0, 3, ref.TOctetArray, 0, false)
		if !small {
			add("octets/1", id, 0, 1, ref.TOctetArray, 0, false)
		}
	}
	if id, ok := by[ref.TUnknown]; ok && !small {
		add("unknowntype/4", id, 0, 4, ref.TUnknown, 0, false)
	}
	if !v9 {
		if id, ok := by[ref.TString]; ok {
			lens := []int{0, 1, 254, 255, 256, 300}
			if small {
				lens = []int{0, 3, 255}
			}
			for _, l := range lens {
				add(fmt.Sprintf("string/var%d", l), id, 0, 65535, ref.TString, l, false)
			}
			add("string/var2long", id, 0, 65535, ref.TString, 2, true)
		}
		if id, ok := by[ref.TOctetArray]; ok {
			for _, l := range []int{0, 2, 255} {
				if small && l != 2 {
					continue
				}
				add(fmt.Sprintf("octets/var%d", l), id, 0, 65535, ref.TOctetArray, l, false)
			}
		}
		add("estring/var4", 7, PEN, 65535, ref.TString, 4, false)
	}
	return ks
}

// FillValue builds the octets of a field value. pattern: 0 position-unique, 1 all-ones,
// 2 all-zero, 3 high bit only.
func FillValue(k Kind, pattern, rec, fld int) ref.Value {
	n := int(k.F.Len)
	if k.F.Len == 65535 {
		n = k.VarLen
	}
	b := make([]byte, n)
	for i := range b {
		switch pattern {
		case 0:
			b[i] = byte(0x21 + 0x35*fld + 0x11*rec + i)
		case 1:
			b[i] = 0xff
		case 3:
			if i == 0 {
				b[i] = 0x80
			}
		}
	}
	if k.F.Type == ref.TBool && n >= 1 {
		b[0] = byte(1 + (pattern+rec)%2) // well-formed booleans: 1 true, 2 false
	}
	return ref.Value{Raw: b, LongPrefix: k.LongPfx}
}

// Decoded is the implementation's answer in reference terms.
type Decoded struct {
	Nil     bool
	Agent   string
	Hdr     [6]uint32 // IPFIX: Version, Length, ExportTime, SequenceNo, DomainID  V9: Version, Count, SysUpTime, UNIXSecs, SeqNum, SrcID
	Records [][]ref.ExpField
	Err     error
	IPFIX   *ipfix.Message
	V9      *netflow9.Message
}

// Caches bundles a fresh pair of caches.
type Caches struct {
	I ipfix.MemCache
	N netflow9.MemCache
}

func NewCaches() *Caches {
	return &Caches{ipfix.GetCache("/nonexistent/zzverif"), netflow9.GetCache("/nonexistent/zzverif")}
}

// Decode runs the real decoder.
func Decode(v9 bool, addr net.IP, b []byte, c *Caches) Decoded {
	a := append(net.IP{}, addr...) // cap == len like a socket address
	if v9 {
		m, err := netflow9.NewDecoder(a, b).Decode(c.N)
		d := Decoded{Err: err, V9: m}
		if m == nil {
			d.Nil = true
			return d
		}
		d.Agent = m.AgentID
		d.Hdr = [6]uint32{uint32(m.Header.Version), uint32(m.Header.Count), m.Header.SysUpTime, m.Header.UNIXSecs, m.Header.SeqNum, m.Header.SrcID}
		for _, ds := range m.DataSets {
			var r []ref.ExpField
			for _, f := range ds {
				r = append(r, ref.ExpField{ID: f.ID, Value: f.Value})
			}
			d.Records = append(d.Records, r)
		}
		return d
	}
	m, err := ipfix.NewDecoder(a, b).Decode(c.I)
	d := Decoded{Err: err, IPFIX: m}
	if m == nil {
		d.Nil = true
		return d
	}
	d.Agent = m.AgentID
	d.Hdr = [6]uint32{uint32(m.Header.Version), uint32(m.Header.Length), m.Header.ExportTime, m.Header.SequenceNo, m.Header.DomainID}
	for _, ds := range m.DataSets {
		var r []ref.ExpField
		for _, f := range ds {
			r = append(r, ref.ExpField{ID: f.ID, PEN: f.EnterpriseNo, Value: f.Value})
		}
		d.Records = append(d.Records, r)
	}
	return d
}

// CompareRecords returns "" or (class, message) describing the first difference.
func CompareRecords(got, want [][]ref.ExpField) (string, string) {
	if len(got) != len(want) {
		// classify: is got a prefix / subsequence of want?
		cls := "count"
		if len(got) < len(want) {
			cls = "missing-records"
		} else {
			cls = "extra-records"
		}
		return cls, fmt.Sprintf("decoded %d records, expected %d", len(got), len(want))
	}
	for i := range want {
		if len(got[i]) != len(want[i]) {
			return "field-count", fmt.Sprintf("record %d: %d fields, expected %d", i, len(got[i]), len(want[i]))
		}
		for j := range want[i] {
			g, w := got[i][j], want[i][j]
			if g.ID != w.ID {
				return "field-id", fmt.Sprintf("record %d field %d: id %d, expected %d", i, j, g.ID, w.ID)
			}
			if g.PEN != w.PEN {
				return "field-enterprise", fmt.Sprintf("record %d field %d: enterprise %d, expected %d", i, j, g.PEN, w.PEN)
			}
			if !ref.ValueEqual(g.Value, w.Value) {
				return "field-value", fmt.Sprintf("record %d field %d (id %d): %s, expected %s", i, j, w.ID, ref.Show(g.Value), ref.Show(w.Value))
			}
		}
	}
	return "", ""
}

// DescribeRecords renders records for replay files.
func DescribeRecords(r [][]ref.ExpField) []string {
	var out []string
	for _, rec := range r {
		s := ""
		for _, f := range rec {
			s += fmt.Sprintf("[%d/%d %s]", f.PEN, f.ID, ref.Show(f.Value))
		}
		out = append(out, s)
	}
	return out
}

var (
	AddrV4mapped = net.ParseIP("192.0.2.1")
	AddrV4       = net.IP{192, 0, 2, 1}
	AddrV6       = net.ParseIP("2001:db8::1")
	AddrOther    = net.ParseIP("198.51.100.7")
)

// ModelKeys lists (enterprise, id) of every model entry, sorted.
func ModelKeys() [][2]int {
	var out [][2]int
	for k := range ipfix.InfoModel {
		out = append(out, [2]int{int(k.EnterpriseNo), int(k.ElementID)})
	}
	sort.Slice(out, func(i, j int) bool {
		if out[i][0] != out[j][0] {
			return out[i][0] < out[j][0]
		}
		return out[i][1] < out[j][1]
	})
	return out
}

// TypeOf returns the abstract type of a model entry.
func TypeOf(pen uint32, id uint16) ref.AType {
	return AType(ipfix.InfoModel[ipfix.ElementKey{EnterpriseNo: pen, ElementID: id}].Type)
}

// CacheKey renders the cache content canonically (sorted by key, timestamps dropped) from
// the exported cache structure.
func CacheKey(c *Caches, v9 bool) string {
	var items []string
	if v9 {
		for si, sh := range c.N {
			if sh == nil {
				continue
			}
			for k, v := range sh.Templates {
				items = append(items, fmt.Sprintf("%d/%v:%+v", si, k, v.Template))
			}
		}
	} else {
		for si, sh := range c.I {
			if sh == nil {
				continue
			}
			for k, v := range sh.Templates {
				items = append(items, fmt.Sprintf("%d/%v:%+v", si, k, v.Template))
			}
		}
	}
	sort.Strings(items)
	return fmt.Sprint(items)
}

// CacheEntries counts the templates held in the exported cache structure.
func CacheEntries(c *Caches, v9 bool) int {
	n := 0
	if v9 {
		for _, sh := range c.N {
			if sh != nil {
				n += len(sh.Templates)
			}
		}
		return n
	}
	for _, sh := range c.I {
		if sh != nil {
			n += len(sh.Templates)
		}
	}
	return n
}

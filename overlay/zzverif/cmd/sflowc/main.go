// sflowc: sFlow field-for-field decode (C07), type filter (C18), JSON faithfulness (C05 part).
package main

import (
	"encoding/hex"
	"fmt"
	"strings"

	"github.com/EdgeCast/vflow/zzverif/mck"
	"github.com/EdgeCast/vflow/zzverif/ref"
	"github.com/EdgeCast/vflow/zzverif/sfh"
)

var spaces = map[string]func(string) mck.Space{}

func main() { mck.Main(spaces) }

func describeSF(desc string, wire []byte, filter []uint32, want ref.J) func() interface{} {
	return func() interface{} {
		return map[string]interface{}{"desc": desc, "wire": hex.EncodeToString(wire), "filter": filter, "expected": want}
	}
}

func stripIdx(p string) string { return p }

// runSF decodes the datagram with the real decoder and compares with the reference tree.
func runSF(c *mck.Ctx, dg *ref.SFDatagram, filter []uint32, desc string) (map[string]interface{}, []byte) {
	wire := dg.Encode()
	want := dg.Expected(filter)
	c.SetCase(describeSF(desc, wire, filter, want))
	tree, raw, _, err := sfh.Decode(append([]byte{}, wire...), filter)
	c.Nontrivial(mck.Hash64(wire, []byte(fmt.Sprint(filter))))
	if err != nil {
		e := err.Error()
		if len(e) > 50 {
			e = e[:50]
		}
		d := describeSF(desc, wire, filter, want)().(map[string]interface{})
		d["err"] = err.Error()
		c.Violation("sflow:error:"+e, "well-formed datagram not decoded: "+err.Error(), d)
		return nil, wire
	}
	if p, m := sfh.Diff("", tree, want); p != "" {
		d := describeSF(desc, wire, filter, want)().(map[string]interface{})
		d["got_json"] = string(raw)
		c.Violation("sflow:mismatch:"+stripIdx(p), p+": "+m, d)
		return tree, wire
	}
	c.Outcome(fmt.Sprintf("samples=%d", len(dg.Samples)))
	c.Sample(describeSF(desc, wire, filter, want))
	return tree, wire
}

func baseDG(v6 bool, samples ...ref.SFSample) *ref.SFDatagram {
	a := sfh.Agent4
	if v6 {
		a = sfh.Agent6
	}
	return &ref.SFDatagram{Agent: a, SubID: 0x0a0b0c0d, Seq: 0x1a1b1c1d, Uptime: 0x2a2b2c2d, Samples: samples}
}

type namedSample struct {
	name string
	s    ref.SFSample
}

func sampleAlphabet(withVendor bool) []namedSample {
	a := []namedSample{
		{"flow{raw}", sfh.FlowSample(0, sfh.Rec("raw", 0))},
		{"flow{sw}", sfh.FlowSample(0, sfh.Rec("sw", 0))},
		{"flow{rt4}", sfh.FlowSample(0, sfh.Rec("rt4", 0))},
		{"flow{rt0,sw}", sfh.FlowSample(0, sfh.Rec("rt0", 0), sfh.Rec("sw", 1))},
		{"flow{raw,sw,rt6}", sfh.FlowSample(1, sfh.Rec("raw", 13), sfh.Rec("sw", 1), sfh.Rec("rt6", 0))},
		{"flow{unk,raw}", sfh.FlowSample(0, sfh.Rec("unknown", 2), sfh.Rec("raw", 20))},
		{"flow{}", sfh.FlowSample(0)},
		{"counter{gen}", sfh.CounterSample(0, sfh.Rec("gen", 0))},
		{"counter{eth,tr}", sfh.CounterSample(1, sfh.Rec("eth", 0), sfh.Rec("tr", 0))},
		{"counter{vg,vlan,proc}", sfh.CounterSample(0, sfh.Rec("vg", 0), sfh.Rec("vlan", 0), sfh.Rec("proc", 0))},
		{"counter{unk,gen}", sfh.CounterSample(0, sfh.Rec("unknown", 1), sfh.Rec("gen", 1))},
		{"flow{vendor-rec,sw}", sfh.FlowSample(0, sfh.Rec("vendor-std-format", 1), sfh.Rec("sw", 0))},
		{"counter{vendor-rec,vlan}", sfh.CounterSample(0, sfh.Rec("vendor-std-format", 3), sfh.Rec("vlan", 0))},
		{"unknown3/0", sfh.UnknownSample(3, 0)},
		{"unknown4/8", sfh.UnknownSample(4, 8)},
		{"unknown5/12", sfh.UnknownSample(5, 12)},
	}
	if withVendor {
		a = append(a, namedSample{"vendor(4413:1)/8", sfh.UnknownSample(4413<<12|1, 8)})
	}
	return a
}

func init() {
	// sflow.seq: all sample sequences of length 0..3 over the sample alphabet x agent v4/v6
	spaces["sflow.seq"] = func(tier string) mck.Space {
		al := sampleAlphabet(true)
		n := uint64(len(al) + 1)
		L := 3
		if tier == "thorough" {
			L = 4
		}
		dims := mck.Radix{}
		for i := 0; i < L; i++ {
			dims = append(dims, n)
		}
		dims = append(dims, 2)
		return mck.FuncSpace{N: dims.Size(), F: func(idx uint64, c *mck.Ctx) {
			d := dims.Digits(idx)
			var ss []ref.SFSample
			var names []string
			ended := false
			for _, k := range d[:L] {
				if k == 0 {
					ended = true
					continue
				}
				if ended {
					c.Skip()
					return
				}
				ss = append(ss, al[k-1].s)
				names = append(names, al[k-1].name)
			}
			runSF(c, baseDG(d[L] == 1, ss...), nil, strings.Join(names, " ; "))
		}}
	}
	// sflow.counts: how MANY - N samples in one datagram (the same sample repeated / cycling through the
	// alphabet), N unsupported records in front of a supported one in a flow and in a counter sample.
	spaces["sflow.counts"] = func(tier string) mck.Space {
		al := sampleAlphabet(true)
		counts := []int{1, 2, 3, 4, 7, 8, 9, 15, 16, 17, 18, 31, 32, 33, 63, 64, 65, 100, 127, 128, 129, 255, 256, 257, 400}
		if tier == "thorough" {
			counts = nil
			for n := 1; n <= 420; n++ {
				counts = append(counts, n)
			}
		}
		modes := []string{"same sample", "cycling samples", "unsupported records before a raw header", "unsupported records before generic counters"}
		dims := mck.Radix{uint64(len(modes)), uint64(len(counts)), uint64(len(al)), 2}
		return mck.FuncSpace{N: dims.Size(), F: func(idx uint64, c *mck.Ctx) {
			d := dims.Digits(idx)
			n := counts[d[1]]
			var ss []ref.SFSample
			switch d[0] {
			case 0:
				for i := 0; i < n; i++ {
					ss = append(ss, al[d[2]].s)
				}
			case 1:
				for i := 0; i < n; i++ {
					ss = append(ss, al[(d[2]+i)%len(al)].s)
				}
			case 2, 3:
				if d[2] != 0 {
					c.Skip()
					return
				}
				var recs []ref.SFRecord
				for i := 0; i < n; i++ {
					recs = append(recs, sfh.Rec("unknown", i%7))
				}
				if d[0] == 2 {
					ss = []ref.SFSample{sfh.FlowSample(0, append(recs, sfh.Rec("raw", 3))...), sfh.CounterSample(0, sfh.Rec("gen", 0))}
				} else {
					ss = []ref.SFSample{sfh.CounterSample(0, append(recs, sfh.Rec("gen", 1))...), sfh.FlowSample(0, sfh.Rec("raw", 0))}
				}
			}
			dg := baseDG(d[3] == 1, ss...)
			if len(dg.Encode()) > 60000 {
				c.Skip()
				return
			}
			runSF(c, dg, nil, fmt.Sprintf("%s, N=%d (alphabet offset %d)", modes[d[0]], n, d[2]))
		}}
	}
	// sflow.flowrec: one flow sample, all ordered selections of <=3 distinct record types
	spaces["sflow.flowrec"] = func(tier string) mck.Space {
		kinds := []string{"raw", "sw", "rt4", "rt6", "rt0", "unknown", "vendor-std-format"}
		n := uint64(len(kinds) + 1)
		dims := mck.Radix{n, n, n, 2, 27}
		return mck.FuncSpace{N: dims.Size(), F: func(idx uint64, c *mck.Ctx) {
			d := dims.Digits(idx)
			seen := map[string]bool{}
			var recs []ref.SFRecord
			var names []string
			ended, hasRaw := false, false
			for _, k := range d[:3] {
				if k == 0 {
					ended = true
					continue
				}
				kd := kinds[k-1]
				base := kd
				if kd == "rt4" || kd == "rt6" || kd == "rt0" {
					base = "rt"
				}
				if ended || seen[base] {
					c.Skip()
					return
				}
				seen[base] = true
				p := d[3]
				if kd == "raw" {
					p = d[4]
					hasRaw = true
				}
				recs = append(recs, sfh.Rec(kd, p))
				names = append(names, kd)
			}
			if !hasRaw && d[4] != 0 {
				c.Skip()
				return
			}
			runSF(c, baseDG(false, sfh.FlowSample(d[3], recs...)), nil, fmt.Sprintf("flow sample records=%v pattern=%d frame=%d", names, d[3], d[4]))
		}}
	}
	// sflow.counterrec: one counter sample, ordered selections of <=3 distinct record types
	spaces["sflow.counterrec"] = func(tier string) mck.Space {
		kinds := []string{"gen", "eth", "tr", "vg", "vlan", "proc", "unknown", "vendor-std-format"}
		n := uint64(len(kinds) + 1)
		dims := mck.Radix{n, n, n, 2}
		return mck.FuncSpace{N: dims.Size(), F: func(idx uint64, c *mck.Ctx) {
			d := dims.Digits(idx)
			seen := map[string]bool{}
			var recs []ref.SFRecord
			var names []string
			ended := false
			for _, k := range d[:3] {
				if k == 0 {
					ended = true
					continue
				}
				kd := kinds[k-1]
				if ended || seen[kd] {
					c.Skip()
					return
				}
				seen[kd] = true
				recs = append(recs, sfh.Rec(kd, d[3]))
				names = append(names, kd)
			}
			runSF(c, baseDG(true, sfh.CounterSample(d[3], recs...)), nil, fmt.Sprintf("counter sample records=%v pattern=%d", names, d[3]))
		}}
	}
	// sflow.onehot: every field of every record / sample / datagram header all-ones alone
	spaces["sflow.onehot"] = func(tier string) mck.Space {
		type oh struct {
			name string
			mk   func() *ref.SFDatagram
		}
		var cases []oh
		for _, k := range []string{"sw", "gen", "eth", "tr", "vg", "vlan", "proc"} {
			k := k
			for i := 0; i < sfh.NFields(k); i++ {
				i := i
				cases = append(cases, oh{fmt.Sprintf("%s.field%d", k, i), func() *ref.SFDatagram {
					if k == "sw" {
						return baseDG(false, sfh.FlowSample(2, sfh.Rec(k, 3+i)))
					}
					return baseDG(false, sfh.CounterSample(2, sfh.Rec(k, 3+i)))
				}})
			}
		}
		for _, p := range []int{3, 4} {
			p := p
			for _, k := range []string{"rt4", "rt6", "rt0"} {
				k := k
				cases = append(cases, oh{fmt.Sprintf("%s.mask%d", k, p), func() *ref.SFDatagram { return baseDG(false, sfh.FlowSample(2, sfh.Rec(k, p))) }})
			}
		}
		for p := 3; p <= 10; p++ {
			p := p
			cases = append(cases, oh{fmt.Sprintf("flowsample.field%d", p), func() *ref.SFDatagram { return baseDG(false, sfh.FlowSample(p, sfh.Rec("sw", 2))) }})
		}
		for p := 3; p <= 5; p++ {
			p := p
			cases = append(cases, oh{fmt.Sprintf("countersample.field%d", p), func() *ref.SFDatagram { return baseDG(false, sfh.CounterSample(p, sfh.Rec("vlan", 2))) }})
		}
		for h := 0; h < 4; h++ {
			h := h
			cases = append(cases, oh{fmt.Sprintf("header.field%d", h), func() *ref.SFDatagram {
				d := &ref.SFDatagram{Agent: []byte{0, 0, 0, 0}, Samples: []ref.SFSample{sfh.CounterSample(2, sfh.Rec("proc", 2))}}
				switch h {
				case 0:
					d.Agent = []byte{255, 255, 255, 255}
				case 1:
					d.SubID = ^uint32(0)
				case 2:
					d.Seq = ^uint32(0)
				case 3:
					d.Uptime = ^uint32(0)
				}
				return d
			}})
		}
		return mck.FuncSpace{N: uint64(len(cases)), F: func(idx uint64, c *mck.Ctx) {
			runSF(c, cases[idx].mk(), nil, "one-hot "+cases[idx].name)
		}}
	}
	// sflow.magic: every 32-bit field of the datagram header, the sample headers and the standard records holding,
	// alone, each of the values the sFlow specification (or a programmer) gives a meaning of its own: the "no / internal
	// interface" value 0x3FFFFFFF and its neighbours, the two format bits of an interface word, sign and width
	// boundaries. A value singled out for special treatment shows only when that very value is tried.
	spaces["sflow.magic"] = func(tier string) mck.Space {
		magic := []uint64{0x3FFFFFFF, 0x3FFFFFFE, 0x40000000, 0x40000001, 0x7FFFFFFF, 0x80000000, 0x80000001, 0xBFFFFFFF, 0xC0000000, 0xFFFFFFFE, 0x00FFFFFF, 0x01000000, 0x0000FFFF, 0x00010000, 1}
		type mc struct {
			name string
			mk   func(v uint64) *ref.SFDatagram
		}
		var cases []mc
		for i, n := range []string{"Seq", "SrcType", "SrcIdx", "Rate", "Pool", "Drops", "Input", "Output"} {
			i := i
			cases = append(cases, mc{"flowsample." + n, func(v uint64) *ref.SFDatagram {
				sm := sfh.FlowSample(2, sfh.Rec("sw", 0))
				w := uint32(v)
				switch i {
				case 0:
					sm.Seq = w
				case 1:
					sm.SrcType = uint8(w)
				case 2:
					sm.SrcIdx = w & 0xffffff
				case 3:
					sm.Rate = w
				case 4:
					sm.Pool = w
				case 5:
					sm.Drops = w
				case 6:
					sm.Input = w
				case 7:
					sm.Output = w
				}
				return baseDG(false, sm)
			}})
		}
		for i, n := range []string{"Seq", "SrcType", "SrcIdx"} {
			i := i
			cases = append(cases, mc{"countersample." + n, func(v uint64) *ref.SFDatagram {
				sm := sfh.CounterSample(2, sfh.Rec("vlan", 0))
				w := uint32(v)
				switch i {
				case 0:
					sm.Seq = w
				case 1:
					sm.SrcType = uint8(w)
				case 2:
					sm.SrcIdx = w & 0xffffff
				}
				return baseDG(false, sm)
			}})
		}
		for _, k := range []string{"sw", "gen", "eth", "tr", "vg", "vlan", "proc"} {
			k := k
			for i := 0; i < sfh.NFields(k); i++ {
				i := i
				cases = append(cases, mc{fmt.Sprintf("%s.%s", k, ref.Layouts[k].Names[i]), func(v uint64) *ref.SFDatagram {
					r := sfh.Rec(k, 2)
					if i < len(r.Vals) {
						if ref.Layouts[k].Wide[i] {
							r.Vals[i] = v<<32 | v
						} else {
							r.Vals[i] = v
						}
					}
					if k == "sw" {
						return baseDG(false, sfh.FlowSample(2, r))
					}
					return baseDG(false, sfh.CounterSample(2, r))
				}})
			}
		}
		for h, n := range []string{"SubID", "Seq", "Uptime"} {
			h := h
			cases = append(cases, mc{"header." + n, func(v uint64) *ref.SFDatagram {
				d := &ref.SFDatagram{Agent: []byte{10, 0, 0, 1}, Samples: []ref.SFSample{sfh.CounterSample(2, sfh.Rec("proc", 0))}}
				switch h {
				case 0:
					d.SubID = uint32(v)
				case 1:
					d.Seq = uint32(v)
				case 2:
					d.Uptime = uint32(v)
				}
				return d
			}})
		}
		for i, n := range []string{"FrameLen", "Stripped"} {
			i := i
			cases = append(cases, mc{"raw." + n, func(v uint64) *ref.SFDatagram {
				r := sfh.Rec("raw", 0)
				if i == 0 {
					r.FrameLen = uint32(v)
				} else {
					r.Stripped = uint32(v)
				}
				return baseDG(false, sfh.FlowSample(2, r))
			}})
		}
		dims := mck.Radix{uint64(len(cases)), uint64(len(magic))}
		return mck.FuncSpace{N: dims.Size(), F: func(idx uint64, c *mck.Ctx) {
			d := dims.Digits(idx)
			runSF(c, cases[d[0]].mk(magic[d[1]]), nil, fmt.Sprintf("%s = %#x, everything else zero / base", cases[d[0]].name, magic[d[1]]))
		}}
	}
	// sflow.frames: 27 frame shapes x every L2/L3/L4 field all-ones alone (+ all-zero, position-unique)
	spaces["sflow.frames"] = func(tier string) mck.Space {
		vs := sfh.FrameVariants()
		dims := mck.Radix{uint64(len(vs)), uint64(len(sfh.FrameFields))}
		return mck.FuncSpace{N: dims.Size(), F: func(idx uint64, c *mck.Ctx) {
			d := dims.Digits(idx)
			f := sfh.MkFrame(vs[d[0]], sfh.FrameFields[d[1]])
			r := ref.SFRecord{Kind: "raw", Tag: 1, Frame: f, FrameLen: 1518, Stripped: 4, HeaderLen: len(f.Bytes())}
			runSF(c, baseDG(false, sfh.FlowSample(2, r)), nil, fmt.Sprintf("frame %s field %s", vs[d[0]].Name, sfh.FrameFields[d[1]]))
		}}
	}
	// sflow.sweep: EVERY value of the 16-bit fields of a sampled frame (IPv4 total length and id, IPv6 payload
	// length, TCP/UDP ports, the 802.1Q tag) and of the 8-bit ones (TOS, TTL / hop limit, ICMP type and code): the
	// length fields in particular describe the ORIGINAL packet, not what was sampled - a decoder that acts on them
	// (trims "padding", stops early) shows only for particular values.
	spaces["sflow.sweep"] = func(tier string) mck.Space {
		vs := sfh.FrameVariants()
		type fld struct {
			name string
			bits int
			set  func(f *ref.Frame, v uint16)
			need func(v sfh.FrameVariant) bool
		}
		v4 := func(v sfh.FrameVariant) bool { return !v.V6 }
		v6 := func(v sfh.FrameVariant) bool { return v.V6 }
		flds := []fld{
			{"ipv4 total length", 16, func(f *ref.Frame, v uint16) { f.TotalLen = v }, v4},
			{"ipv4 id", 16, func(f *ref.Frame, v uint16) { f.ID = v }, v4},
			{"ipv6 payload length", 16, func(f *ref.Frame, v uint16) { f.PayLen = v }, v6},
			{"source port", 16, func(f *ref.Frame, v uint16) { f.SPort = v }, func(v sfh.FrameVariant) bool { return v.L4 == 6 || v.L4 == 17 }},
			{"destination port", 16, func(f *ref.Frame, v uint16) { f.DPort = v }, func(v sfh.FrameVariant) bool { return v.L4 == 6 || v.L4 == 17 }},
			{"802.1Q tag", 16, func(f *ref.Frame, v uint16) { f.TCI = v }, func(v sfh.FrameVariant) bool { return v.VLAN }},
			{"tos", 8, func(f *ref.Frame, v uint16) { f.TOS = uint8(v) }, v4},
			{"ttl", 8, func(f *ref.Frame, v uint16) { f.TTL = uint8(v) }, v4},
			{"hop limit", 8, func(f *ref.Frame, v uint16) { f.HopLimit = uint8(v) }, v6},
			{"icmp type", 8, func(f *ref.Frame, v uint16) { f.ICMPType = uint8(v) }, func(v sfh.FrameVariant) bool { return v.L4 == 1 || v.L4 == 58 }},
			{"icmp code", 8, func(f *ref.Frame, v uint16) { f.ICMPCode = uint8(v) }, func(v sfh.FrameVariant) bool { return v.L4 == 1 || v.L4 == 58 }},
		}
		pick := []int{0, 1, 2, 9, 17, 26} // eth/ip4/{tcp,udp,icmp}, eth+vlan/ip4/tcp, eth+vlan/ip6/icmp, raw-ip6/icmp
		if tier == "thorough" {
			pick = nil
			for i := range vs {
				pick = append(pick, i)
			}
		}
		dims := mck.Radix{uint64(len(pick)), uint64(len(flds)), 65536}
		return mck.FuncSpace{N: dims.Size(), F: func(idx uint64, c *mck.Ctx) {
			d := dims.Digits(idx)
			v, fl := vs[pick[d[0]]], flds[d[1]]
			if !fl.need(v) || (fl.bits == 8 && d[2] > 255) {
				c.Skip()
				return
			}
			f := sfh.MkFrame(v, "posuniq")
			f.Payload = []byte{0xa1, 0xa2, 0xa3, 0xa4, 0xa5, 0xa6, 0xa7, 0xa8, 0xa9, 0xaa, 0xab, 0xac, 0xad, 0xae, 0xaf, 0xb0, 0xb1, 0xb2, 0xb3, 0xb4, 0xb5, 0xb6}
			fl.set(f, uint16(d[2]))
			r := ref.SFRecord{Kind: "raw", Tag: 1, Frame: f, FrameLen: 64, Stripped: 4, HeaderLen: len(f.Bytes())}
			runSF(c, baseDG(false, sfh.FlowSample(0, r)), nil, fmt.Sprintf("frame %s, %s = %d", v.Name, fl.name, d[2]))
		}}
	}
	// sflow.hdrlen: one representative frame per L4, every sampled header length 0..1500
	spaces["sflow.hdrlen"] = func(tier string) mck.Space {
		vs := sfh.FrameVariants()
		pick := []int{0, 1, 2, 9, 17, 26} // eth/ip4/{tcp,udp,icmp}, eth+vlan/ip4/tcp, eth+vlan/ip6/icmp, raw-ip6/icmp
		if tier == "thorough" {
			pick = nil
			for i := range vs {
				pick = append(pick, i)
			}
		}
		dims := mck.Radix{1501, uint64(len(pick))}
		return mck.FuncSpace{N: dims.Size(), F: func(idx uint64, c *mck.Ctx) {
			d := dims.Digits(idx)
			v := vs[pick[d[1]]]
			f := sfh.MkFrame(v, "posuniq")
			f.Payload = make([]byte, 1500)
			for i := range f.Payload {
				f.Payload[i] = byte(i*3 + 1)
			}
			n := d[0]
			if n < f.MinLen() {
				// incomplete headers: outside the field-for-field statement; crash safety is C01
				c.Skip()
				return
			}
			r := ref.SFRecord{Kind: "raw", Tag: 1, Frame: f, FrameLen: 1518, Stripped: 4, HeaderLen: n}
			runSF(c, baseDG(false, sfh.FlowSample(0, r), sfh.CounterSample(0, sfh.Rec("vlan", 0))), nil, fmt.Sprintf("frame %s sampled header length %d (XDR pad %d)", v.Name, n, (4-n%4)%4))
		}}
	}
}

func init() {
	// sflow.filter (C18): sample sequences of length 0..3 x filter lists; oracle = reference tree with
	// the listed types removed AND differential against the unfiltered decode of the same datagram.
	spaces["sflow.filter"] = func(tier string) mck.Space {
		all := sampleAlphabet(true)
		pick := map[string]bool{"flow{raw}": true, "flow{sw}": true, "flow{}": true, "counter{gen}": true, "counter{vg,vlan,proc}": true, "unknown3/0": true, "unknown4/8": true, "vendor(4413:1)/8": true,
			"flow{raw,sw,rt6}": true}
		var al []namedSample
		for _, a := range all {
			if pick[a.name] {
				al = append(al, a)
			}
		}
		// a flow sample whose sampled header the packet decoder REJECTS (an ARP frame): a filtered sample is skipped by
		// its length, not decoded and thrown away - whatever is wrong inside it cannot matter (used only with filters
		// that list type 1; unfiltered, the datagram is not well-formed input)
		arp := sfh.Rec("raw", 0)
		arp.RawBytes = append([]byte{2, 0, 0, 0, 0, 1, 2, 0, 0, 0, 0, 2, 0x08, 0x06}, make([]byte, 28)...)
		arp.HeaderLen = len(arp.RawBytes)
		al = append(al, namedSample{"flow{arp-header}", sfh.FlowSample(0, arp)})
		arpIdx := len(al)
		filters := [][]uint32{{}, {1}, {2}, {3}, {1, 2}, {2, 3}, {1, 3}, {1, 2, 3}, {0}, {7}, {4413<<12 | 1}, {4294967295},
			// numbers that are RECORD formats inside samples (flow: 1001 switch, 1002 router; counter: 4 vg, 5 vlan, 1001 processor):
			// the filter is about sample types only and must not reach into the samples it lets through
			{1001}, {1002}, {1001, 1002}, {5}, {4, 1001}, {2, 1001, 1002}}
		// long lists: the listed standard type is the last of 16, 17, 33, 64, 257 entries
		for _, L := range []int{16, 17, 33, 64, 257} {
			for _, last := range []uint32{1, 2} {
				var f []uint32
				for i := 0; i < L-1; i++ {
					f = append(f, uint32(100+i))
				}
				filters = append(filters, append(f, last))
			}
		}
		n := uint64(len(al) + 1)
		dims := mck.Radix{n, n, n, uint64(len(filters))}
		return mck.FuncSpace{N: dims.Size(), F: func(idx uint64, c *mck.Ctx) {
			d := dims.Digits(idx)
			var ss []ref.SFSample
			var names []string
			ended := false
			for _, k := range d[:3] {
				if k == 0 {
					ended = true
					continue
				}
				if ended {
					c.Skip()
					return
				}
				ss = append(ss, al[k-1].s)
				names = append(names, al[k-1].name)
			}
			f := filters[d[3]]
			hasArp, lists1 := false, false
			for _, k := range d[:3] {
				hasArp = hasArp || k == arpIdx
			}
			for _, t := range f {
				lists1 = lists1 || t == 1
			}
			if hasArp && !lists1 {
				c.Skip()
				return
			}
			dg := baseDG(false, ss...)
			desc := fmt.Sprintf("%s | filter %v", strings.Join(names, " ; "), f)
			if len(f) > 4 {
				desc = fmt.Sprintf("%s | filter of %d entries 100.. ending in %d", strings.Join(names, " ; "), len(f), f[len(f)-1])
			}
			got, wire := runSF(c, dg, f, desc)
			if got == nil {
				return
			}
			// differential: unfiltered decode of the same octets, listed types removed
			base, _, _, err := sfh.Decode(append([]byte{}, wire...), nil)
			if err != nil && hasArp {
				c.Outcome("undecodable sample filtered out")
				return // no unfiltered decode to compare with: the reference tree was the oracle
			}
			if err != nil {
				c.Violation("sflow:filter:unfiltered-error", err.Error(), nil)
				return
			}
			for _, t := range f {
				if t == 1 {
					base["Samples"] = []interface{}{}
				}
				if t == 2 {
					base["Counters"] = []interface{}{}
				}
			}
			if p, m := sfh.Diff("", got, base); p != "" {
				c.Violation("sflow:filter:differential:"+p, m, describeSF(desc, wire, f, nil)())
			}
			if len(f) > 4 {
				c.Outcome(fmt.Sprintf("filter of %d entries ending in %d", len(f), f[len(f)-1]))
			} else {
				c.Outcome(fmt.Sprintf("filter=%v", f))
			}
		}}
	}
}

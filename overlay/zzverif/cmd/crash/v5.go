package main

import (
	"fmt"

	"github.com/EdgeCast/vflow/zzverif/mck"
)

func init() {
	spaces["v5.grammar"] = func(t string) mck.Space { return v5Grammar(t) }
	spaces["v5.mutate"] = func(t string) mck.Space { return mutateSpace(pV5, v5Seeds(), t) }
}

// v5Grammar: version x count x every datagram length 0..(24+48*31+49) step-wise x 3 fills.
func v5Grammar(tier string) mck.Space {
	vers := []uint16{5, 0, 9, 0x0500, 0xffff}
	counts := []uint16{0, 1, 2, 3, 29, 30, 31, 255, 256, 32767, 65535}
	var lens []int
	for l := 0; l <= 24+48*3+2; l++ {
		lens = append(lens, l)
	}
	for _, c := range []int{29, 30, 31} {
		for dl := -2; dl <= 2; dl++ {
			lens = append(lens, 24+48*c+dl)
		}
	}
	lens = append(lens, 65507)
	dims := mck.Radix{uint64(len(vers)), uint64(len(counts)), uint64(len(lens)), 3, 3}
	return dgSpace{n: dims.Size(), gen: func(idx uint64) *dgram {
		d := dims.Digits(idx)
		b := make([]byte, lens[d[2]])
		for i := range b {
			switch d[3] {
			case 0:
				b[i] = byte(i*5 + 1)
			case 1:
				b[i] = 0xff
			}
		}
		if len(b) >= 4 {
			b[0], b[1] = byte(vers[d[0]]>>8), byte(vers[d[0]])
			b[2], b[3] = byte(counts[d[1]]>>8), byte(counts[d[1]])
		}
		return &dgram{proto: pV5, addr: addrs[d[4]], wire: b, class: fmt.Sprintf("v5:ver%d/count%d/len%d/fill%d", vers[d[0]], counts[d[1]], len(b), d[3]), sig: "v5:grammar"}
	}}
}

func v5Seeds() []seed {
	var out []seed
	for _, n := range []int{1, 2, 30} {
		b := make([]byte, 24+48*n)
		for i := range b {
			b[i] = byte(i*3 + 7)
		}
		b[0], b[1], b[2], b[3] = 0, 5, 0, byte(n)
		out = append(out, seed{fmt.Sprintf("v5x%d", n), nil, b})
	}
	return out
}

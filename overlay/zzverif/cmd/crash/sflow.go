package main

import (
	"fmt"

	"github.com/EdgeCast/vflow/zzverif/mck"
	"github.com/EdgeCast/vflow/zzverif/ref"
	"github.com/EdgeCast/vflow/zzverif/sfh"
)

func init() {
	spaces["sflow.grec"] = func(t string) mck.Space { return sfRecGrammar(t) }
	spaces["sflow.graw"] = func(t string) mck.Space { return sfRawGrammar(t) }
	spaces["sflow.ghdr"] = func(t string) mck.Space { return sfHdrGrammar(t) }
	spaces["sflow.dense"] = func(t string) mck.Space { return sfDense(t) }
	spaces["sflow.mutate"] = func(t string) mck.Space { return mutateSpace(pSFlow, sfSeeds(), t) }
}

func sfHeader(w *ref.W, version, ipver uint32, nsamples uint32) {
	w.U32(version)
	w.U32(ipver)
	if ipver == 2 {
		w.Bytes(sfh.Agent6)
	} else {
		w.Bytes(sfh.Agent4)
	}
	w.U32(1)
	w.U32(2)
	w.U32(3)
	w.U32(nsamples)
}

func fillBytes(n, fill int) []byte {
	b := make([]byte, n)
	for i := range b {
		switch fill {
		case 0:
			b[i] = byte(i + 1)
		case 1:
			b[i] = 0xff
		}
	}
	return b
}

// one flow / counter sample holding one record of every type x declared length x actual length x fill
func sfRecGrammar(tier string) mck.Space {
	flowTypes := []uint32{1, 1001, 1002, 2000, 1<<12 | 1}
	ctrTypes := []uint32{1, 2, 3, 4, 5, 1001, 7}
	declared := []uint32{}
	for l := uint32(0); l <= 32; l++ {
		declared = append(declared, l)
	}
	declared = append(declared, 52, 72, 80, 88, 92, 0x7fffffff, 0x80000000, 0xfffffff8, 0xffffffff)
	actual := []int{-1, 0, 3, 40, 96} // -1: as declared (capped at 128)
	nrecs := []uint32{1, 0, 2, 0xffffffff}
	dims := mck.Radix{2, 7, uint64(len(declared)), uint64(len(actual)), 3, uint64(len(nrecs))}
	return dgSpace{n: dims.Size(), gen: func(idx uint64) *dgram {
		d := dims.Digits(idx)
		var typ uint32
		isFlow := d[0] == 0
		if isFlow {
			if d[1] >= len(flowTypes) {
				return nil
			}
			typ = flowTypes[d[1]]
		} else {
			typ = ctrTypes[d[1]]
		}
		decl := declared[d[2]]
		n := actual[d[3]]
		if n < 0 {
			n = int(decl)
			if decl > 128 {
				n = 128
			}
		}
		body := &ref.W{}
		if isFlow {
			body.U32(7)
			body.U32(0x02000001)
			for i := 0; i < 5; i++ {
				body.U32(uint32(i + 1))
			}
		} else {
			body.U32(7)
			body.U32(0x02000001)
		}
		body.U32(nrecs[d[5]])
		body.U32(typ)
		body.U32(decl)
		body.Bytes(fillBytes(n, d[4]))
		w := &ref.W{}
		sfHeader(w, 5, 1, 1)
		if isFlow {
			w.U32(1)
		} else {
			w.U32(2)
		}
		w.U32(uint32(len(body.B)))
		w.Bytes(body.B)
		kind := "counter"
		if isFlow {
			kind = "flow"
		}
		return &dgram{proto: pSFlow, addr: addrs[0], wire: w.B, class: fmt.Sprintf("sflow:%s-record type=%d declared=%d actual=%d fill=%d nrecs=%d", kind, typ, decl, n, d[4], nrecs[d[5]]),
			sig: fmt.Sprintf("sflow:%s-record-type-%d", kind, typ)}
	}}
}

// raw packet header records: header protocol x header length field x ethertype x L3 quirks x L4
func sfRawGrammar(tier string) mck.Space {
	protos := []uint32{1, 11, 12, 0, 13}
	var hls []uint32
	for l := uint32(0); l <= 64; l++ {
		hls = append(hls, l)
	}
	hls = append(hls, 1498, 1499, 1500, 1501, 1502, 1503, 0x7fffffff, 0xffffffff)
	// 0xa0xx: stacked VLAN tags (the TPIDs listed in tagStacks), the payload ethertype follows the last tag
	etypes := []uint16{0x0800, 0x86dd, 0x8100, 0x0806, 0, 0x88a8, 0xa001, 0xa002, 0xa003, 0xa004}
	tagStacks := map[uint16][]uint16{0x8100: {0x8100}, 0x88a8: {0x88a8}, 0xa001: {0x8100, 0x8100}, 0xa002: {0x88a8, 0x8100}, 0xa003: {0x88a8, 0x8100, 0x8100}, 0xa004: {0x9100, 0x8100}}
	l4s := []uint8{6, 17, 1, 58, 0}
	ihls := []uint8{0x45, 0x40, 0x4f, 0x46}
	dims := mck.Radix{uint64(len(protos)), uint64(len(hls)), uint64(len(etypes)), uint64(len(l4s)), uint64(len(ihls)), 2}
	return dgSpace{n: dims.Size(), gen: func(idx uint64) *dgram {
		d := dims.Digits(idx)
		proto, hl, et, l4, ihl := protos[d[0]], hls[d[1]], etypes[d[2]], l4s[d[3]], ihls[d[4]]
		stack := tagStacks[et]
		v6 := et == 0x86dd || (stack != nil && d[5] == 1) || proto == 12
		f := &ref.W{}
		if proto != 11 && proto != 12 {
			f.Bytes([]byte{2, 0, 0, 0, 0, 1, 2, 0, 0, 0, 0, 2})
			if stack == nil {
				f.U16(et)
			} else {
				for ti, tpid := range stack {
					f.U16(tpid)
					f.U16(0x2064 + uint16(ti))
				}
				if d[5] == 1 {
					f.U16(0x86dd)
				} else {
					f.U16(0x0800)
				}
			}
		} else if d[2] != 0 {
			return nil // ethertype dimension is irrelevant without an Ethernet header
		}
		if v6 {
			f.U32(0x60000000)
			f.U16(32)
			f.U8(l4)
			f.U8(64)
			f.Bytes(fillBytes(32, 0))
		} else {
			f.U8(ihl)
			f.U8(0)
			f.U16(60)
			f.U32(0x12344000)
			f.U8(64)
			f.U8(l4)
			f.U16(0)
			f.Bytes([]byte{10, 0, 0, 1, 10, 0, 0, 2})
			if ihl == 0x46 {
				f.U32(0x01010100)
			}
		}
		f.Bytes(fillBytes(24, 0))
		frame := f.B
		n := len(frame)
		if int64(hl) < int64(n) {
			n = int(hl)
		}
		sampled := frame[:n]
		if hl >= 1498 && hl <= 1503 {
			sampled = append(append([]byte{}, frame...), fillBytes(int(hl)-len(frame), 0)...)
		}
		rec := &ref.W{}
		rec.U32(proto)
		rec.U32(1518)
		rec.U32(4)
		rec.U32(hl)
		rec.Bytes(sampled)
		rec.Zero((4 - len(sampled)%4) % 4)
		body := &ref.W{}
		body.U32(7)
		body.U32(0x02000001)
		for i := 0; i < 5; i++ {
			body.U32(uint32(i + 1))
		}
		body.U32(1)
		body.U32(1)
		body.U32(uint32(len(rec.B)))
		body.Bytes(rec.B)
		w := &ref.W{}
		sfHeader(w, 5, 1, 1)
		w.U32(1)
		w.U32(uint32(len(body.B)))
		w.Bytes(body.B)
		return &dgram{proto: pSFlow, addr: addrs[0], wire: w.B, class: fmt.Sprintf("sflow:rawheader proto=%d hdrlen=%d ethertype=%#x l4=%d ihl=%#x inner6=%d", proto, hl, et, l4, ihl, d[5]),
			sig: fmt.Sprintf("sflow:rawheader-proto-%d-ethertype-%#x", proto, et)}
	}}
}

// datagram header fields x sample count x sample tag x sample length field
func sfHdrGrammar(tier string) mck.Space {
	vers := []uint32{5, 4, 0, 0xffffffff}
	ipvs := []uint32{1, 2, 0, 3}
	counts := []uint32{0, 1, 2, 3, 0x10000, 0xffffffff}
	tags := []uint32{1, 2, 3, 0, 1<<12 | 1, 0xffffffff}
	lens := []uint32{0, 1, 4, 8, 12, 0x7fffffff, 0x80000000, 0xffffffff}
	dims := mck.Radix{uint64(len(vers)), uint64(len(ipvs)), uint64(len(counts)), uint64(len(tags)), uint64(len(lens)), 14, 2}
	return dgSpace{n: dims.Size(), gen: func(idx uint64) *dgram {
		d := dims.Digits(idx)
		w := &ref.W{}
		sfHeader(w, vers[d[0]], ipvs[d[1]], counts[d[2]])
		w.U32(tags[d[3]])
		w.U32(lens[d[4]])
		w.Bytes(fillBytes(4*d[5], d[6]))
		return &dgram{proto: pSFlow, addr: addrs[0], wire: w.B, class: fmt.Sprintf("sflow:hdr ver=%d ipv=%d count=%d tag=%d len=%d body=%d fill=%d", vers[d[0]], ipvs[d[1]], counts[d[2]], tags[d[3]], lens[d[4]], 4*d[5], d[6]),
			sig: fmt.Sprintf("sflow:header-tag-%d", tags[d[3]])}
	}}
}

func sfSeeds() []seed {
	var out []seed
	mk := func(name string, ss ...ref.SFSample) {
		d := &ref.SFDatagram{Agent: sfh.Agent4, SubID: 1, Seq: 2, Uptime: 3, Samples: ss}
		out = append(out, seed{name, nil, d.Encode()})
	}
	for i, v := range sfh.FrameVariants() {
		if i%3 == 0 || v.VLAN {
			r := ref.SFRecord{Kind: "raw", Tag: 1, Frame: sfh.MkFrame(v, "posuniq"), FrameLen: 1518, Stripped: 4}
			r.HeaderLen = len(r.Frame.Bytes())
			mk("raw:"+v.Name, sfh.FlowSample(0, r))
		}
	}
	mk("sw+rt4", sfh.FlowSample(0, sfh.Rec("sw", 0), sfh.Rec("rt4", 0)))
	mk("rt6+unknown", sfh.FlowSample(0, sfh.Rec("rt6", 0), sfh.Rec("unknown", 2)))
	mk("counters", sfh.CounterSample(0, sfh.Rec("gen", 0), sfh.Rec("eth", 0)), sfh.CounterSample(0, sfh.Rec("tr", 0), sfh.Rec("vg", 0), sfh.Rec("vlan", 0), sfh.Rec("proc", 0)))
	mk("mixed", sfh.UnknownSample(3, 8), sfh.FlowSample(0, sfh.Rec("raw", 0)), sfh.UnknownSample(4413<<12|1, 8), sfh.CounterSample(0, sfh.Rec("gen", 0)))
	return out
}

// sfDense: large datagrams of minimal samples - thousands of empty unknown samples (8 octets), empty flow
// samples, empty counter samples, and flow samples holding many empty unknown records.
func sfDense(tier string) mck.Space {
	ns := []int{64, 1000, 4000, 8000}
	kinds := []string{"empty unknown samples", "empty flow samples", "empty counter samples", "one flow sample with N empty unknown records", "alternating"}
	dims := mck.Radix{uint64(len(kinds)), uint64(len(ns)), 2}
	return dgSpace{n: dims.Size(), gen: func(idx uint64) *dgram {
		d := dims.Digits(idx)
		n := ns[d[1]]
		unk := func(w *ref.W) { w.U32(9); w.U32(0) }
		flow := func(w *ref.W, nrec int, recs []byte) {
			w.U32(1)
			w.U32(uint32(32 + len(recs)))
			w.U32(7)
			w.U32(0x02000001)
			for i := 0; i < 5; i++ {
				w.U32(uint32(i + 1))
			}
			w.U32(uint32(nrec))
			w.Bytes(recs)
		}
		ctr := func(w *ref.W) { w.U32(2); w.U32(12); w.U32(7); w.U32(0x02000001); w.U32(0) }
		body := &ref.W{}
		count := 0
		switch d[0] {
		case 3:
			recs := &ref.W{}
			for i := 0; i < n && len(recs.B) < 60000; i++ {
				recs.U32(2000 + uint32(i%5))
				recs.U32(0)
			}
			flow(body, len(recs.B)/8, recs.B)
			count = 1
		default:
			for i := 0; i < n && len(body.B) < 60000; i++ {
				k := d[0]
				if k == 4 {
					k = i % 3
				}
				switch k {
				case 0:
					unk(body)
				case 1:
					flow(body, 0, nil)
				case 2:
					ctr(body)
				}
				count++
			}
		}
		w := &ref.W{}
		sfHeader(w, 5, uint32(1+d[2]), uint32(count))
		w.Bytes(body.B)
		return &dgram{proto: pSFlow, addr: addrs[0], wire: w.B, class: fmt.Sprintf("sflow:dense:%d x %s", n, kinds[d[0]]), sig: "sflow:dense"}
	}}
}

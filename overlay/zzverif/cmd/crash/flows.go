package main

import (
	"fmt"
	"net"
	"runtime"
	"strings"
	"syscall"
	"time"

	"github.com/EdgeCast/vflow/zzverif/flowh"
	"github.com/EdgeCast/vflow/zzverif/mck"
	"github.com/EdgeCast/vflow/zzverif/ref"
)

var addrs = []net.IP{net.ParseIP("192.0.2.1"), {192, 0, 2, 1}, net.ParseIP("2001:db8::1")}

func init() {
	for _, p := range []int{pIPFIX, pV9} {
		p := p
		n := protoNames[p]
		spaces[n+".grammar"] = func(t string) mck.Space { return flowGrammar(p, t) }
		spaces[n+".mutate"] = func(t string) mck.Space { return mutateSpace(p, flowSeeds(p), t) }
		spaces[n+".history"] = func(t string) mck.Space { return historySpace(p, t) }
		spaces[n+".dense"] = func(t string) mck.Space { return flowDense(p, t) }
		spaces[n+".scaling"] = func(t string) mck.Space { return flowScaling(p, t) }
	}
}

func flowHeader(p int, version uint16, w *ref.W) {
	w.U16(version)
	if p == pV9 {
		w.U16(2)
		w.U32(1)
		w.U32(2)
		w.U32(3)
		w.U32(4)
	} else {
		w.U16(0)
		w.U32(2)
		w.U32(3)
		w.U32(4)
	}
}

func protoVersion(p int) uint16 {
	if p == pV9 {
		return 9
	}
	return 10
}

// body alphabet of one set: raw data bodies and template-record bodies with boundary values
type body struct {
	name string
	b    []byte
}

func setBodies(p int) []body {
	var bs []body
	for l := 0; l <= 12; l++ {
		for fill := 0; fill < 2; fill++ {
			b := make([]byte, l)
			for i := range b {
				if fill == 0 {
					b[i] = byte(i + 1)
				} else {
					b[i] = 0xff
				}
			}
			if l == 0 && fill == 1 {
				continue
			}
			bs = append(bs, body{fmt.Sprintf("data%d/%d", l, fill), b})
		}
	}
	by := flowh.ElemByType()
	elem := []uint16{by[ref.TU32], 0x8000 | 1, 9999, by[ref.TString]}
	lens := []uint16{0, 1, 4, 65535}
	tids := []uint16{0, 255, 256, 300}
	fcs := []uint16{0, 1, 2, 65535}
	// plain template records: tid, fieldcount, up to 2 field specifiers
	for _, tid := range tids {
		for _, fc := range fcs {
			for _, e := range elem {
				for _, l := range lens {
					w := &ref.W{}
					w.U16(tid)
					w.U16(fc)
					w.U16(e)
					w.U16(l)
					if e&0x8000 != 0 && p == pIPFIX {
						w.U32(flowh.PEN)
					}
					w.U16(by[ref.TU16])
					w.U16(2)
					bs = append(bs, body{fmt.Sprintf("tpl(id=%d,count=%d,elem=%d,len=%d)", tid, fc, e, l), w.B})
				}
			}
		}
	}
	// options template records: tid, (count, scopecount) | (scopelen, optlen), 2 specifiers
	for _, tid := range []uint16{256, 300} {
		for _, a := range []uint16{0, 1, 2, 4, 8, 65535} {
			for _, b2 := range []uint16{0, 1, 2, 4, 65535} {
				for _, l := range lens {
					w := &ref.W{}
					w.U16(tid)
					w.U16(a)
					w.U16(b2)
					w.U16(by[ref.TU32])
					w.U16(l)
					w.U16(by[ref.TU16])
					w.U16(2)
					bs = append(bs, body{fmt.Sprintf("otpl(id=%d,a=%d,b=%d,len=%d)", tid, a, b2, l), w.B})
				}
			}
		}
	}
	return bs
}

var setIDs = []uint16{0, 1, 2, 3, 4, 255, 256, 300, 65535}

const nLenModes = 9

func lenField(mode int, exact int) uint16 {
	switch mode {
	case 0:
		return uint16(exact)
	case 1:
		return 0
	case 2:
		return 1
	case 3:
		return 3
	case 4:
		return 4
	case 5:
		return 5
	case 6:
		return uint16(exact - 1)
	case 7:
		return uint16(exact + 1)
	}
	return 0xffff
}

// flowGrammar: version x (set id x length mode x body) for one set, and for two sets with
// the second drawn from a reduced body alphabet; all three exporter address forms on the
// single-set part.
func flowGrammar(p int, tier string) mck.Space {
	flowh.InstallExtra()
	bodies := setBodies(p)
	// reduced alphabet for the second set
	var small []body
	for i, b := range bodies {
		if i < 26 && (i%4 == 0 || len(b.b) == 8 || len(b.b) == 9) {
			small = append(small, b)
		}
	}
	step := 23
	if tier == "thorough" {
		step = 3
	}
	for i := 26; i < len(bodies); i += step {
		small = append(small, bodies[i])
	}
	one := mck.Radix{2, uint64(len(setIDs)), nLenModes, uint64(len(bodies)), 3}
	// two sets, generic: small x small
	two := mck.Radix{uint64(len(setIDs)), nLenModes, uint64(len(small)), uint64(len(setIDs)), 3, uint64(len(small))}
	// two sets, template installed by the first and used by the second (a history inside one datagram)
	var tb []body
	for _, b := range bodies[25:] {
		tb = append(tb, b)
	}
	inst := mck.Radix{uint64(len(tb)), 2, 3, 25}
	n1 := one.Size()
	n2 := n1 + two.Size()
	encSet := func(w *ref.W, id uint16, mode int, b []byte) {
		w.U16(id)
		w.U16(lenField(mode, 4+len(b)))
		w.Bytes(b)
	}
	return dgSpace{n: n2 + inst.Size(), gen: func(idx uint64) *dgram {
		w := &ref.W{}
		if idx < n1 {
			d := one.Digits(idx)
			v := protoVersion(p)
			if d[0] == 1 {
				v = 0
			}
			flowHeader(p, v, w)
			encSet(w, setIDs[d[1]], d[2], bodies[d[3]].b)
			return &dgram{proto: p, addr: addrs[d[4]], wire: w.B, class: fmt.Sprintf("%s:set%d/len%d/%s", protoNames[p], setIDs[d[1]], d[2], bodies[d[3]].name), sig: fmt.Sprintf("%s:set-id-%d", protoNames[p], setIDs[d[1]])}
		}
		flowHeader(p, protoVersion(p), w)
		if idx < n2 {
			d := two.Digits(idx - n1)
			encSet(w, setIDs[d[0]], d[1], small[d[2]].b)
			lm := []int{0, 6, 8}[d[4]]
			encSet(w, setIDs[d[3]], lm, small[d[5]].b)
			return &dgram{proto: p, addr: addrs[0], wire: w.B, class: fmt.Sprintf("%s:set%d/len%d/%s+set%d/len%d/%s", protoNames[p], setIDs[d[0]], d[1], small[d[2]].name, setIDs[d[3]], lm, small[d[5]].name), sig: fmt.Sprintf("%s:set-id-%d+set-id-%d", protoNames[p], setIDs[d[0]], setIDs[d[3]])}
		}
		d := inst.Digits(idx - n2)
		t := tb[d[0]]
		id := uint16(2)
		if t.name[0] == 'o' {
			id = 3
		}
		if p == pV9 {
			id -= 2
		}
		encSet(w, id, 0, t.b)
		did := []uint16{256, 300}[d[1]]
		lm := []int{0, 6, 8}[d[2]]
		encSet(w, did, lm, bodies[d[3]].b)
		return &dgram{proto: p, addr: addrs[0], wire: w.B, class: fmt.Sprintf("%s:%s+data%d/len%d/%s", protoNames[p], t.name, did, lm, bodies[d[3]].name), sig: protoNames[p] + ":template+data-in-one-datagram"}
	}}
}

// flowSeeds: well-formed messages from the C03/C06 generator (with their template announcements).
type seed struct {
	name string
	pre  [][]byte
	wire []byte
}

func flowSeeds(p int) []seed {
	v9 := p == pV9
	kinds := flowh.Kinds(v9, false)
	var seeds []seed
	mk := func(name string, ks []flowh.Kind, split, nrec, pad int, same bool) {
		t := ref.Template{ID: 256, Options: split > 0}
		for i, k := range ks {
			if i < split {
				t.Scope = append(t.Scope, k.F)
			} else {
				t.Fields = append(t.Fields, k.F)
			}
		}
		tpls := map[uint16]ref.Template{256: t}
		var recs []ref.Record
		for r := 0; r < nrec; r++ {
			var rec ref.Record
			for f, k := range ks {
				rec = append(rec, flowh.FillValue(k, 0, r, f))
			}
			recs = append(recs, rec)
		}
		ts := ref.Set{Kind: ref.SetTemplates, Templates: []ref.Template{t}}
		ds := ref.Set{Kind: ref.SetData, TemplateID: 256, Records: recs, Pad: pad}
		if same {
			m := &ref.Msg{V9: v9, Sets: []ref.Set{ts, ds}}
			seeds = append(seeds, seed{name, nil, m.Encode(tpls)})
		} else {
			seeds = append(seeds, seed{name, [][]byte{(&ref.Msg{V9: v9, Sets: []ref.Set{ts}}).Encode(tpls)}, (&ref.Msg{V9: v9, Sets: []ref.Set{ds}}).Encode(tpls)})
		}
	}
	// one seed per kind (template in the same message), plus mixed multi-field seeds
	for _, k := range kinds {
		if k.VarLen > 40 {
			continue
		}
		mk("kind:"+k.Name, []flowh.Kind{k}, 0, 2, 0, true)
	}
	pick := func(names ...string) []flowh.Kind {
		var out []flowh.Kind
		for _, n := range names {
			for _, k := range kinds {
				if k.Name == n {
					out = append(out, k)
				}
			}
		}
		return out
	}
	mk("mixed-pre", pick("unsigned32", "ipv4Address", "unsigned16", "macAddress"), 0, 3, 2, false)
	mk("mixed-opt", pick("unsigned32", "ipv6Address", "unsigned64"), 1, 2, 0, false)
	mk("mixed-opt-same", pick("unsigned16", "unsigned8", "float64"), 2, 2, 1, true)
	if !v9 {
		mk("var-pre", pick("string/var1", "unsigned32", "octets/var2", "string/var2long"), 0, 2, 0, false)
		mk("var-ent", pick("estring/var4", "esigned32", "string/var0"), 0, 2, 0, true)
	}
	return seeds
}

var subst = []int{0x00, 0x01, 0x7f, 0x80, 0xff, -1, -2} // -1: v+1, -2: v-1

// mutateSpace: for every seed: every truncation, every single-octet substitution; thorough:
// every pair of positions within the first 64 octets.
func mutateSpace(p int, seeds []seed, tier string) mck.Space {
	type root struct {
		s    int
		kind int // 0 truncations, 1 single substitutions, 2 pair substitutions with first position fixed
		pos  int
	}
	var roots []root
	var sizes []uint64
	var total uint64
	for si, s := range seeds {
		L := len(s.wire)
		roots = append(roots, root{si, 0, 0})
		sizes = append(sizes, uint64(L+1))
		roots = append(roots, root{si, 1, 0})
		sizes = append(sizes, uint64(L*len(subst)))
		if tier == "thorough" {
			lim := L
			if lim > 64 {
				lim = 64
			}
			for a := 0; a < lim; a++ {
				roots = append(roots, root{si, 2, a})
				sizes = append(sizes, uint64((lim-a-1)*len(subst)*len(subst)))
			}
		}
	}
	cum := make([]uint64, len(sizes)+1)
	for i, s := range sizes {
		cum[i+1] = cum[i] + s
	}
	total = cum[len(sizes)]
	sub := func(v byte, k int) byte {
		switch subst[k] {
		case -1:
			return v + 1
		case -2:
			return v - 1
		}
		return byte(subst[k])
	}
	return dgSpace{n: total, gen: func(idx uint64) *dgram {
		// binary search root
		lo, hi := 0, len(sizes)
		for hi-lo > 1 {
			mid := (lo + hi) / 2
			if cum[mid] <= idx {
				lo = mid
			} else {
				hi = mid
			}
		}
		r := roots[lo]
		off := int(idx - cum[lo])
		s := seeds[r.s]
		w := append([]byte{}, s.wire...)
		cls := ""
		switch r.kind {
		case 0:
			w = w[:off]
			cls = "trunc"
		case 1:
			pos, k := off/len(subst), off%len(subst)
			w[pos] = sub(w[pos], k)
			cls = "subst1"
		case 2:
			n2 := len(subst) * len(subst)
			b := r.pos + 1 + off/n2
			k := off % n2
			w[r.pos] = sub(w[r.pos], k/len(subst))
			w[b] = sub(w[b], k%len(subst))
			cls = "subst2"
		}
		return &dgram{proto: p, addr: addrs[0], pre: s.pre, wire: w, class: fmt.Sprintf("%s:mut:%s:%s", protoNames[p], cls, s.name), sig: fmt.Sprintf("%s:mut:%s", protoNames[p], cls)}
	}}
}

// historySpace: explicit-state exploration of template-cache states. A state is the cache
// content reached by <=2 template-announcing datagrams drawn from the adversarial template
// alphabet (two template ids: every (definition-or-none) x (definition-or-none) pair, i.e.
// the closure for two ids); from every state every data datagram of the alphabet is decoded.
// States are canonicalised as the sorted (key, template) list read from the exported cache
// structure; the distinct-state count is the merged count of canonical hashes.
func historySpace(p int, tier string) mck.Space {
	flowh.InstallExtra()
	var anns []body
	for _, b := range setBodies(p) {
		if len(b.b) >= 2 && (b.name[0] == 't' || b.name[0] == 'o') {
			tid := uint16(b.b[0])<<8 | uint16(b.b[1])
			if tid == 256 || tid == 300 {
				if tier != "thorough" && (strings.Contains(b.name, "elem=32769") || strings.Contains(b.name, fmt.Sprintf("elem=%d,", flowh.ElemByType()[ref.TString])) ||
					strings.Contains(b.name, "a=1,") || strings.Contains(b.name, "a=2,") || strings.Contains(b.name, "b=1,") || strings.Contains(b.name, "b=2,")) {
					continue
				}
				anns = append(anns, b)
			}
		}
	}
	mkAnn := func(b body) []byte {
		w := &ref.W{}
		flowHeader(p, protoVersion(p), w)
		id := uint16(2)
		if b.name[0] == 'o' {
			id = 3
		}
		if p == pV9 {
			id -= 2
		}
		w.U16(id)
		w.U16(uint16(4 + len(b.b)))
		w.Bytes(b.b)
		return w.B
	}
	// data datagrams
	var datas []body
	for _, id := range []uint16{256, 300} {
		for _, l := range []int{0, 1, 2, 3, 4, 5, 6, 7, 8, 9, 10, 11, 12, 64, 300} {
			for fill := 0; fill < 2; fill++ {
				w := &ref.W{}
				flowHeader(p, protoVersion(p), w)
				w.U16(id)
				w.U16(uint16(4 + l))
				for i := 0; i < l; i++ {
					if fill == 0 {
						w.U8(byte(i + 1))
					} else {
						w.U8(0xff)
					}
				}
				datas = append(datas, body{fmt.Sprintf("data(id=%d,len=%d,fill=%d)", id, l, fill), w.B})
			}
		}
	}
	{ // two data sets in one datagram, and a data set whose length field overshoots
		w := &ref.W{}
		flowHeader(p, protoVersion(p), w)
		w.U16(256)
		w.U16(12)
		w.Bytes([]byte{1, 2, 3, 4, 5, 6, 7, 8})
		w.U16(300)
		w.U16(10)
		w.Bytes([]byte{9, 8, 7, 6, 5, 4})
		datas = append(datas, body{"data(256+300)", w.B})
		w = &ref.W{}
		flowHeader(p, protoVersion(p), w)
		w.U16(256)
		w.U16(400)
		w.Bytes([]byte{1, 2, 3, 4, 5, 6, 7, 8})
		datas = append(datas, body{"data(256,overlong)", w.B})
	}
	// ONE datagram: data for an id, a template set re-defining that id (every template body of the alphabet, the
	// degenerate ones included), data for the id again - whatever the decoder remembers about a template while it
	// works through a message must not outlive the re-definition
	for _, a := range anns {
		tid := uint16(a.b[0])<<8 | uint16(a.b[1])
		if tier != "thorough" && tid != 256 {
			continue // quick: one of the two ids
		}
		w := &ref.W{}
		flowHeader(p, protoVersion(p), w)
		w.U16(tid)
		w.U16(12)
		w.Bytes([]byte{1, 2, 3, 4, 5, 6, 7, 8})
		id := uint16(2)
		if a.name[0] == 'o' {
			id = 3
		}
		if p == pV9 {
			id -= 2
		}
		w.U16(id)
		w.U16(uint16(4 + len(a.b)))
		w.Bytes(a.b)
		w.U16(tid)
		w.U16(12)
		w.Bytes([]byte{8, 7, 6, 5, 4, 3, 2, 1})
		datas = append(datas, body{"data+" + a.name + "+data", w.B})
	}
	A := uint64(len(anns) + 1)
	dims := mck.Radix{A, A, 3}
	return mck.FuncSpace{N: dims.Size(), F: func(idx uint64, c *mck.Ctx) {
		d := dims.Digits(idx)
		addr := addrs[d[2]]
		var pre [][]byte
		name := ""
		for _, k := range d[:2] {
			if k > 0 {
				pre = append(pre, mkAnn(anns[k-1]))
				name += anns[k-1].name + ";"
			}
		}
		if d[0] == 0 && d[1] != 0 {
			c.Skip() // (none, b) is the same history as (b, none)
			return
		}
		// canonical state of this history
		caches := flowh.NewCaches()
		dg := &dgram{proto: p, addr: addr, class: protoNames[p] + ":history:announce:" + name}
		c.SetCase(dg.describe)
		for _, a := range pre {
			dg.wire = a
			process(dg, caches, append([]byte{}, a...))
		}
		key := flowh.CacheKey(caches, p == pV9)
		c.Nontrivial(mck.HashStr(key, fmt.Sprint(d[2])))
		c.Transitions(uint64(len(pre)))
		for _, dd := range datas {
			runDgram(c, &dgram{proto: p, addr: addr, pre: pre, wire: dd.b, class: protoNames[p] + ":history:" + name + dd.name, noHash: true, sig: protoNames[p] + ":history"})
			c.Transitions(1)
		}
		c.Depth(uint64(len(pre) + 1))
	}}
}

// flowDense: LARGE datagrams made of the smallest legal units - thousands of 4..8-octet sets of every kind,
// and tens of thousands of 1-octet records - up to the UDP maximum. Cost and memory must stay proportional to
// the octets received; whatever grows with the NUMBER of sets, errors or records faster than that shows here.
func flowDense(p int, tier string) mck.Space {
	ns := []int{64, 1000, 4000, 16000}
	tplSet := uint16(2)
	optSet := uint16(3)
	reserved := uint16(5)
	if p == pV9 {
		tplSet, optSet, reserved = 0, 1, 7
	}
	units := []struct {
		name string
		ids  []uint16
		body []byte
	}{
		{"unknown-template sets of 4 octets", []uint16{999}, nil},
		{"unknown-template sets of 8 octets", []uint16{999}, []byte{1, 2, 3, 4}},
		{"reserved-id sets of 4 octets", []uint16{reserved}, nil},
		{"empty template sets", []uint16{tplSet}, nil},
		{"empty options-template sets", []uint16{optSet}, nil},
		{"alternating unknown / reserved / empty template sets", []uint16{999, reserved, tplSet, 65535}, nil},
		{"unknown-template sets with different ids", nil, nil},
		{"template sets announcing a one-field template each", []uint16{tplSet}, []byte{0, 0, 0, 1, 0, 4, 0, 1}}, // id patched per set
	}
	dims := mck.Radix{uint64(len(units)), uint64(len(ns)), 2}
	return dgSpace{n: dims.Size() + uint64(len(ns)), gen: func(idx uint64) *dgram {
		if idx >= dims.Size() { // N one-octet records of a template announced before
			n := ns[idx-dims.Size()] * 4
			if n > 64000 {
				n = 64000
			}
			tw := &ref.W{}
			flowHeader(p, protoVersion(p), tw)
			tw.U16(tplSet)
			tw.U16(12)
			tw.U16(300)
			tw.U16(1)
			tw.U16(4) // protocolIdentifier, 1 octet
			tw.U16(1)
			w := &ref.W{}
			flowHeader(p, protoVersion(p), w)
			w.U16(300)
			w.U16(uint16(4 + n))
			w.Bytes(fillBytes(n, 0))
			return &dgram{proto: p, addr: addrs[0], pre: [][]byte{tw.B}, wire: w.B, class: fmt.Sprintf("%s:dense:%d one-octet records", protoNames[p], n), sig: protoNames[p] + ":dense:records"}
		}
		d := dims.Digits(idx)
		u, n := units[d[0]], ns[d[1]]
		w := &ref.W{}
		flowHeader(p, protoVersion(p), w)
		for i := 0; i < n && len(w.B)+4+len(u.body) <= 65000; i++ {
			id := uint16(256 + i%60000)
			if u.ids != nil {
				id = u.ids[i%len(u.ids)]
			}
			w.U16(id)
			w.U16(uint16(4 + len(u.body)))
			b := append([]byte{}, u.body...)
			if len(b) == 8 { // template record: give every set its own template id
				b[0], b[1] = byte((256+i)>>8), byte(256+i)
			}
			w.Bytes(b)
		}
		return &dgram{proto: p, addr: addrs[d[2]*2], wire: w.B, class: fmt.Sprintf("%s:dense:%d x %s", protoNames[p], n, u.name), sig: protoNames[p] + ":dense:sets"}
	}}
}

// flowScaling: the cost of processing ONE datagram must not grow with what the collector already holds. The same
// datagram (24 template records / data of a known template / data of an unknown template) is processed with an
// empty template cache and with one holding 50 000 and 200 000 templates of other exporters; cost = CPU time of this
// thread (getrusage, not wall-clock time) over a calibrated number of repetitions (>= 40 ms for the empty cache). A
// cost more than 40 times the empty-cache cost (plus 100 ms of slack) is a violation: per-datagram work that sweeps, copies or locks in proportion to the cache.
func flowScaling(p int, tier string) mck.Space {
	kinds := []string{"24 template records", "data of a known template", "data of an unknown template"}
	sizes := []int{50000, 200000}
	dims := mck.Radix{uint64(len(kinds)), uint64(len(sizes))}
	return mck.FuncSpace{N: dims.Size(), F: func(idx uint64, c *mck.Ctx) {
		d := dims.Digits(idx)
		mk := func() []byte {
			w := &ref.W{}
			flowHeader(p, protoVersion(p), w)
			tplSet := uint16(2)
			if p == pV9 {
				tplSet = 0
			}
			switch d[0] {
			case 0:
				body := &ref.W{}
				for i := 0; i < 24; i++ {
					body.U16(uint16(400 + i))
					body.U16(2)
					body.U16(8)
					body.U16(4)
					body.U16(12)
					body.U16(4)
				}
				w.U16(tplSet)
				w.U16(uint16(4 + len(body.B)))
				w.Bytes(body.B)
			case 1:
				w.U16(300)
				w.U16(4 + 64)
				w.Bytes(fillBytes(64, 0))
			default:
				w.U16(999)
				w.U16(4 + 64)
				w.Bytes(fillBytes(64, 0))
			}
			return w.B
		}
		wire := mk()
		victim := addrs[0]
		prepare := func(n int) *flowh.Caches {
			cc := flowh.NewCaches()
			tw := &ref.W{}
			flowHeader(p, protoVersion(p), tw)
			tplSet := uint16(2)
			if p == pV9 {
				tplSet = 0
			}
			tw.U16(tplSet)
			tw.U16(16)
			tw.U16(300)
			tw.U16(2)
			tw.U16(8)
			tw.U16(4)
			tw.U16(12)
			tw.U16(4)
			flowh.Decode(p == pV9, victim, append([]byte{}, tw.B...), cc)
			for i := 0; i < n; i++ {
				flowh.Decode(p == pV9, net.IPv4(10, byte(i>>16), byte(i>>8), byte(i)), append([]byte{}, tw.B...), cc)
			}
			return cc
		}
		cost := func(cc *flowh.Caches, reps int) time.Duration {
			runtime.LockOSThread()
			defer runtime.UnlockOSThread()
			best := time.Duration(1 << 62)
			for round := 0; round < 3; round++ { // the best of three rounds: scheduling noise only ever adds
				var a, b syscall.Rusage
				syscall.Getrusage(1 /* RUSAGE_THREAD */, &a)
				for k := 0; k < reps; k++ {
					flowh.Decode(p == pV9, victim, append([]byte{}, wire...), cc)
				}
				syscall.Getrusage(1, &b)
				t := time.Duration(b.Utime.Nano()-a.Utime.Nano()) + time.Duration(b.Stime.Nano()-a.Stime.Nano())
				if t < best {
					best = t
				}
			}
			return best
		}
		desc := func() interface{} {
			return map[string]interface{}{"protocol": protoNames[p], "datagram": kinds[d[0]], "templates_of_other_exporters_in_the_cache": sizes[d[1]]}
		}
		c.SetCase(desc)
		c.Heartbeat()
		// the repetition count is calibrated so that the empty-cache cost is well above the granularity of CPU-time
		// accounting (which may be a scheduler tick of several milliseconds)
		empty := prepare(0)
		reps := 64
		small := cost(empty, reps)
		for small < 40*time.Millisecond && reps < 1<<17 {
			reps *= 2
			small = cost(empty, reps)
		}
		c.Heartbeat()
		big := cost(prepare(sizes[d[1]]), reps)
		c.Nontrivial(mck.Hash64([]byte(fmt.Sprint(p, d))))
		c.Outcome("measured")
		if big > 40*small+100*time.Millisecond {
			dd := desc().(map[string]interface{})
			dd["cpu_time_empty_cache"], dd["cpu_time_full_cache"] = small.String(), big.String()
			c.Violation(protoNames[p]+":scaling:"+strings.ReplaceAll(kinds[d[0]], " ", "-"), fmt.Sprintf("%d repetitions of one datagram cost %v of CPU time with an empty cache and %v with %d templates of other exporters in it", reps, small, big, sizes[d[1]]), dd)
		}
		c.Sample(func() interface{} {
			dd := desc().(map[string]interface{})
			dd["cpu_time_empty_cache"], dd["cpu_time_full_cache"] = small.String(), big.String()
			return dd
		})
	}}
}

// crash: C01 (no datagram can crash the collector) and C02 (work and memory bounded by the
// datagram's size) over grammar spaces, mutation closures and template-cache histories.
package main

import (
	"bytes"
	"encoding/hex"
	"encoding/json"
	"flag"
	"fmt"
	"net"
	"os"
	"runtime"
	"runtime/metrics"
	"sync/atomic"
	"time"

	netflow5 "github.com/EdgeCast/vflow/netflow/v5"
	"github.com/EdgeCast/vflow/sflow"
	"github.com/EdgeCast/vflow/zzverif/flowh"
	"github.com/EdgeCast/vflow/zzverif/mck"
)

var spaces = map[string]func(string) mck.Space{}

var measure = flag.Bool("alloc", false, "C02: measure allocation per datagram and enforce the bounds")

const (
	pIPFIX = iota
	pV9
	pV5
	pSFlow
)

var protoNames = []string{"ipfix", "v9", "v5", "sflow"}

// one datagram to process, after some earlier datagrams (history)
type dgram struct {
	proto  int
	addr   net.IP
	pre    [][]byte
	wire   []byte
	class  string // fine description of the case
	sig    string // coarse class used in violation signatures
	filter []uint32
	noHash bool // the enclosing space hashes states instead of datagrams
}

var allocSample = []metrics.Sample{{Name: "/gc/heap/allocs:bytes"}}

func allocBytes() uint64 {
	metrics.Read(allocSample)
	return allocSample[0].Value.Uint64()
}

var allocSampleWD = []metrics.Sample{{Name: "/gc/heap/allocs:bytes"}}

func allocBytesWD() uint64 {
	metrics.Read(allocSampleWD)
	return allocSampleWD[0].Value.Uint64()
}

// watchdog state (C02): the case in flight and its allocation budget
var (
	wdActive int32
	wdStart  uint64
	wdLimit  uint64
	wdInfo   atomic.Value
)

var (
	maxRatio float64
	maxUsed  uint64
	msStats  runtime.MemStats
)

// totalAlloc is exact (ReadMemStats flushes the per-P allocation caches); the cheaper
// runtime/metrics counter lags by up to a span per size class and is only used by the watchdog.
func totalAlloc() uint64 {
	runtime.ReadMemStats(&msStats)
	return msStats.TotalAlloc
}

func allocLimit(n int) uint64 { return 64<<10 + 1024*uint64(n) }

// wdSeq is bumped at the start of every case: the watchdog only trusts a sample taken while one and
// the same case was in flight (cases last microseconds, the watchdog samples every 10 ms).
var wdSeq uint64

func startWatchdog() {
	go func() {
		for {
			time.Sleep(10 * time.Millisecond)
			if atomic.LoadInt32(&wdActive) != 1 {
				continue
			}
			seq := atomic.LoadUint64(&wdSeq)
			start := atomic.LoadUint64(&wdStart)
			limit := atomic.LoadUint64(&wdLimit)
			a := allocBytesWD()
			if atomic.LoadUint64(&wdSeq) != seq || atomic.LoadInt32(&wdActive) != 1 || a <= start {
				continue
			}
			if a-start > 64*limit {
				// confirm on a second look that the SAME case is still running
				time.Sleep(20 * time.Millisecond)
				if atomic.LoadUint64(&wdSeq) != seq || atomic.LoadInt32(&wdActive) != 1 {
					continue
				}
				info, _ := wdInfo.Load().(map[string]interface{})
				json.NewEncoder(os.Stdout).Encode(map[string]interface{}{"t": "viol", "space": info["space"], "idx": info["idx"],
					"sig": fmt.Sprintf("alloc-runaway:%v", info["sig"]), "msg": fmt.Sprintf("decode still running after allocating %d bytes for a %v-octet datagram (64x the bound); aborted", a-start, info["len"]), "case": info})
				os.Exit(7)
			}
		}
	}()
}

// process runs decode + JSON encode exactly as the worker of that protocol does, and returns
// the number of records / samples emitted.
func process(d *dgram, caches *flowh.Caches, wire []byte) (n int, published []byte) {
	switch d.proto {
	case pIPFIX, pV9:
		r := flowh.Decode(d.proto == pV9, d.addr, wire, caches)
		if r.Nil {
			return 0, nil
		}
		buf := new(bytes.Buffer)
		if r.IPFIX != nil {
			if len(r.IPFIX.DataSets) > 0 {
				published, _ = r.IPFIX.JSONMarshal(buf)
			}
			return len(r.IPFIX.DataSets), published
		}
		if r.V9.DataSets != nil {
			published, _ = r.V9.JSONMarshal(buf)
		}
		return len(r.V9.DataSets), published
	case pV5:
		m, _ := netflow5.NewDecoder(append(net.IP{}, d.addr...), wire).Decode()
		if m == nil {
			return 0, nil
		}
		if m.Flows != nil {
			published, _ = m.JSONMarshal(new(bytes.Buffer))
		}
		return len(m.Flows), published
	case pSFlow:
		dec := sflow.NewSFDecoder(bytes.NewReader(wire), d.filter)
		dg, err := dec.SFDecode()
		if err != nil || dg == nil {
			if dg != nil {
				return len(dg.Samples) + len(dg.Counters), nil
			}
			return 0, nil
		}
		published, _ = json.Marshal(dg)
		return len(dg.Samples) + len(dg.Counters), published
	}
	return 0, nil
}

func (d *dgram) sigOr() string {
	if d.sig != "" {
		return d.sig
	}
	return d.class
}

func (d *dgram) describe() interface{} {
	var pre []string
	for _, p := range d.pre {
		pre = append(pre, hex.EncodeToString(p))
	}
	w := hex.EncodeToString(d.wire)
	if len(w) > 4000 {
		w = w[:4000] + "..."
	}
	return map[string]interface{}{"proto": protoNames[d.proto], "exporter": d.addr.String(), "addr_len": len(d.addr), "earlier_datagrams": pre, "wire": w, "len": len(d.wire), "class": d.class}
}

// runDgram is the C01/C02 oracle around one datagram.
var goroutineBase = 1 << 30

func runDgram(c *mck.Ctx, d *dgram) {
	c.SetCase(d.describe)
	if goroutineBase == 1<<30 {
		goroutineBase = runtime.NumGoroutine()
	}
	caches := flowh.NewCaches()
	for _, p := range d.pre {
		process(d, caches, append([]byte{}, p...))
	}
	wire := append([]byte{}, d.wire...)
	var a0 uint64
	if *measure {
		wdInfo.Store(map[string]interface{}{"space": c.Space, "idx": c.Idx, "class": d.class, "sig": d.sigOr(), "len": len(wire), "case": d.describe()})
		atomic.AddUint64(&wdSeq, 1)
		atomic.StoreUint64(&wdStart, allocBytes())
		a0 = totalAlloc()
		atomic.StoreUint64(&wdLimit, allocLimit(len(wire)))
		atomic.StoreInt32(&wdActive, 1)
	}
	n, pub := process(d, caches, wire)
	// nothing may be left RUNNING behind a processed payload: a goroutine per datagram is an unbounded leak that ends
	// the process sooner or later (checked as growth over the worker's baseline, so whatever the harness itself runs is
	// not counted; a few goroutines may be on their way out)
	if g := runtime.NumGoroutine(); g > goroutineBase+4 {
		runtime.Gosched()
		time.Sleep(2 * time.Millisecond)
		if g2 := runtime.NumGoroutine(); g2 > goroutineBase+4 {
			c.Violation("leak:goroutines:"+d.sigOr(), fmt.Sprintf("%d goroutines are still there after the payload was processed (%d before it): something is left running per datagram", g2, goroutineBase), d.describe())
			goroutineBase = g2
		}
	} else if g < goroutineBase {
		goroutineBase = g
	}
	if *measure {
		atomic.StoreInt32(&wdActive, 0)
		used := totalAlloc() - a0
		if r := float64(used) / float64(len(wire)+64); r > maxRatio {
			maxRatio = r
		}
		if used > maxUsed {
			maxUsed = used
			c.Count("max_alloc_bytes_seen_in_shard", 0)
		}
		if used > allocLimit(len(wire)) {
			c.Violation("alloc:"+d.sigOr(), fmt.Sprintf("%d bytes allocated for a %d-octet datagram (bound %d)", used, len(wire), allocLimit(len(wire))), d.describe())
		}
		if n > len(wire) {
			c.Violation("records:"+d.sigOr(), fmt.Sprintf("%d records from a %d-octet datagram", n, len(wire)), d.describe())
		}
		c.Count("alloc_bytes_total", used)
	}
	if n > 0 {
		c.Outcome("records")
	} else {
		c.Outcome("none")
	}
	if pub != nil {
		c.Outcome("published")
	}
	if len(wire) > 0 && !d.noHash {
		c.Nontrivial(mck.Hash64(wire, []byte(d.class[:min(len(d.class), 12)]), bytes.Join(d.pre, nil)))
	}
	if c.Idx%50021 == 0 {
		c.Sample(d.describe)
	}
}

func min(a, b int) int {
	if a < b {
		return a
	}
	return b
}

// dgSpace adapts a generator to mck.Space (+ Describer for crash attribution).
type dgSpace struct {
	n   uint64
	gen func(idx uint64) *dgram // nil = skip
}

func (s dgSpace) Size() uint64 { return s.n }
func (s dgSpace) Run(idx uint64, c *mck.Ctx) {
	d := s.gen(idx)
	if d == nil {
		c.Skip()
		return
	}
	runDgram(c, d)
}
func (s dgSpace) Describe(idx uint64) (string, interface{}) {
	d := s.gen(idx)
	if d == nil {
		return "skip", nil
	}
	return d.sigOr(), d.describe()
}

func main() {
	startWatchdog()
	defer func() {
		if *measure {
			fmt.Fprintf(os.Stderr, "MAXALLOC used=%d ratio=%.1f\n", maxUsed, maxRatio)
		}
	}()
	mck.Main(spaces)
}

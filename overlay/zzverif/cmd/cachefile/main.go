// cachefile: C11 — the template cache survives restart; any cache file content is safe to load.
package main

import (
	"encoding/json"
	"fmt"
	"net"
	"os"
	"os/exec"
	"path/filepath"
	"sort"
	"strings"

	"github.com/EdgeCast/vflow/ipfix"
	netflow9 "github.com/EdgeCast/vflow/netflow/v9"
	"github.com/EdgeCast/vflow/zzverif/flowh"
	"github.com/EdgeCast/vflow/zzverif/mck"
	"github.com/EdgeCast/vflow/zzverif/ref"
)

var spaces = map[string]func(string) mck.Space{}

func main() {
	if len(os.Args) > 2 && os.Args[1] == "-dumponly" {
		// used under strace by the orchestrator to observe the real write history of Dump
		e := newEnv(os.Args[3] == "v9")
		c := e.build(e.contents("quick")[3])
		if err := e.dump(c, os.Args[2]); err != nil {
			fmt.Println(err)
			os.Exit(3)
		}
		return
	}
	if len(os.Args) > 5 && os.Args[1] == "-dumpcontent" {
		// "another process": the parent loads what this process saved (a restart is never the same process)
		e := newEnv(os.Args[4] == "v9")
		var idx int
		fmt.Sscan(os.Args[3], &idx)
		if err := e.dump(e.build(withBigContent(e, e.contents(os.Args[2]))[idx]), os.Args[5]); err != nil {
			fmt.Println(err)
			os.Exit(3)
		}
		return
	}
	mck.Main(spaces)
}

var tmpDirOnce string

// tmpDir is created lazily (under VERIF_TMP, which the orchestrator removes after the run)
func tmpDirGet() string {
	if tmpDirOnce != "" {
		return tmpDirOnce
	}
	d := os.Getenv("VERIF_TMP")
	if d == "" {
		d = os.TempDir()
	}
	p, err := os.MkdirTemp(d, "c11w")
	if err != nil {
		panic(err)
	}
	tmpDirOnce = p
	return p
}

type env struct {
	v9   bool
	by   map[ref.AType]uint16
	prob []net.IP // probe exporters covering all shards
}

func newEnv(v9 bool) *env {
	flowh.InstallExtra()
	e := &env{v9: v9, by: flowh.ElemByType()}
	for i := 0; i < 96; i++ {
		e.prob = append(e.prob, net.ParseIP(fmt.Sprintf("10.9.%d.%d", i/7, i)))
	}
	return e
}

type tplSpec struct {
	addr net.IP
	t    ref.Template
}

type content struct {
	name string
	tpls []tplSpec
}

func (e *env) tplKinds() []ref.Template {
	f := func(t ref.AType, l uint16) ref.Field {
		if l == 0 {
			l = uint16(t.NaturalLen())
		}
		return ref.Field{ID: e.by[t], Len: l, Type: t}
	}
	ts := []ref.Template{
		{Fields: []ref.Field{f(ref.TU32, 0), f(ref.TU16, 0)}},
		{Options: true, Scope: []ref.Field{f(ref.TU32, 0)}, Fields: []ref.Field{f(ref.TIPv4, 0), f(ref.TU64, 0)}},
		{Fields: []ref.Field{f(ref.TIPv6, 0), f(ref.TMac, 0), f(ref.TU8, 0)}},
	}
	if !e.v9 {
		ts = append(ts, ref.Template{Fields: []ref.Field{f(ref.TString, 65535), {ID: 6, PEN: flowh.PEN, Len: 4, Type: ref.TU32}}})
	} else {
		ts = append(ts, ref.Template{Fields: []ref.Field{f(ref.TString, 6), f(ref.TU32, 2)}})
	}
	return ts
}

func (e *env) contents(tier string) []content {
	kinds := e.tplKinds()
	mk := func(name string, n int, addrf func(i int) net.IP, ids []uint16) content {
		c := content{name: name}
		for i := 0; i < n; i++ {
			for j, id := range ids {
				t := kinds[(i+j)%len(kinds)]
				t.ID = id
				c.tpls = append(c.tpls, tplSpec{addrf(i), t})
			}
		}
		return c
	}
	v4 := func(i int) net.IP { return net.ParseIP(fmt.Sprintf("198.51.100.%d", i+1)) }
	v4b := func(i int) net.IP { return net.IP{203, 0, 113, byte(i + 1)} }
	v6 := func(i int) net.IP { return net.ParseIP(fmt.Sprintf("2001:db8::%x", i+1)) }
	cs := []content{
		{name: "empty"},
		mk("one", 1, v4, []uint16{256}),
		mk("one-exporter-4-templates", 1, v4, []uint16{256, 257, 258, 300}),
		mk("40-exporters", 40, v4, []uint16{256}),
		mk("v6+4byte", 6, func(i int) net.IP {
			if i%2 == 0 {
				return v6(i)
			}
			return v4b(i)
		}, []uint16{256, 65535}),
		mk("120-exporters-2-templates", 120, v4, []uint16{256, 400}),
	}
	if tier == "thorough" {
		for n := 2; n <= 35; n++ {
			cs = append(cs, mk(fmt.Sprintf("%d-exporters-mixed", n), n, func(i int) net.IP {
				switch i % 3 {
				case 0:
					return v4(i)
				case 1:
					return v6(i)
				}
				return v4b(i)
			}, []uint16{256, uint16(256 + n)}))
		}
	}
	return cs
}

// build decodes the announcements into a fresh real cache.
func (e *env) build(c content) *flowh.Caches {
	cc := flowh.NewCaches()
	for _, ts := range c.tpls {
		s := ref.Set{Kind: ref.SetTemplates, Templates: []ref.Template{ts.t}}
		if e.v9 && ts.t.Options {
			s.Pad = (4 - (6+4*len(ts.t.All()))%4) % 4
		}
		m := &ref.Msg{V9: e.v9, Sets: []ref.Set{s}}
		flowh.Decode(e.v9, ts.addr, m.Encode(nil), cc)
	}
	return cc
}

func (e *env) dump(c *flowh.Caches, path string) error {
	if e.v9 {
		return c.N.Dump(path)
	}
	return c.I.Dump(path)
}

func (e *env) load(path string) *flowh.Caches {
	if e.v9 {
		return &flowh.Caches{N: netflow9.GetCache(path)}
	}
	return &flowh.Caches{I: ipfix.GetCache(path)}
}

// entries renders the cache as a set of "key=template" strings (shape-tolerant: only called
// on caches built by decoding; loaded caches go through entriesLoaded which recovers).
func (e *env) entries(c *flowh.Caches) (out []string, err error) {
	defer func() {
		if r := recover(); r != nil {
			err = fmt.Errorf("cache structure not traversable: %v", r)
		}
	}()
	if e.v9 {
		for _, sh := range c.N {
			if sh == nil {
				continue
			}
			for k, v := range sh.Templates {
				out = append(out, fmt.Sprintf("%v=%+v", k, v.Template))
			}
		}
	} else {
		for _, sh := range c.I {
			if sh == nil {
				continue
			}
			for k, v := range sh.Templates {
				out = append(out, fmt.Sprintf("%v=%+v", k, v.Template))
			}
		}
	}
	sort.Strings(out)
	return
}

// usable: announce a template and decode data for probe exporters covering every shard.
// Returns "" or a description; panics propagate to the runner (-> violation).
func (e *env) usable(c *flowh.Caches) string {
	t := ref.Template{ID: 777, Fields: []ref.Field{{ID: e.by[ref.TU32], Len: 4, Type: ref.TU32}}}
	tpls := map[uint16]ref.Template{777: t}
	for i, a := range e.prob {
		m := &ref.Msg{V9: e.v9, Sets: []ref.Set{{Kind: ref.SetTemplates, Templates: []ref.Template{t}}, {Kind: ref.SetData, TemplateID: 777, Records: []ref.Record{{{Raw: []byte{0, 0, 1, byte(i)}}}}}}}
		r := flowh.Decode(e.v9, a, m.Encode(tpls), c)
		if r.Nil || r.Err != nil || len(r.Records) != 1 || !ref.ValueEqual(r.Records[0][0].Value, uint32(256+i)) {
			return fmt.Sprintf("after loading, announce+data from %s failed: nil=%v err=%v records=%v", a, r.Nil, r.Err, flowh.DescribeRecords(r.Records))
		}
	}
	return ""
}

// probeAll decodes a well-formed two-record data message for every (exporter, id) of the
// content and renders the result.
func (e *env) probeAll(c *flowh.Caches, ct content) []string {
	var out []string
	for n, ts := range ct.tpls {
		var recs []ref.Record
		for r := 0; r < 2; r++ {
			var rec ref.Record
			for fi, f := range ts.t.All() {
				l := int(f.Len)
				if f.Len == 65535 {
					l = 3
				}
				raw := make([]byte, l)
				for i := range raw {
					raw[i] = byte(0x31 + 7*fi + 3*r + i + n)
				}
				rec = append(rec, ref.Value{Raw: raw})
			}
			recs = append(recs, rec)
		}
		tpls := map[uint16]ref.Template{ts.t.ID: ts.t}
		m := &ref.Msg{V9: e.v9, Sets: []ref.Set{{Kind: ref.SetData, TemplateID: ts.t.ID, Records: recs}}}
		r := flowh.Decode(e.v9, ts.addr, m.Encode(tpls), c)
		out = append(out, fmt.Sprintf("%s#%d: nil=%v err=%v %v", ts.addr, ts.t.ID, r.Nil, r.Err, flowh.DescribeRecords(r.Records)))
	}
	return out
}

// wellTyped: does the document decode, strictly, into the cache's own document type? (The
// reference uses the exported types of the package under test as a schema only.) A document
// that does not must be rejected as a whole - nothing of it may be loaded.
func (e *env) wellTyped(data []byte) bool {
	if e.v9 {
		var d struct {
			Cache   []*struct{ Templates map[string]netflow9.Data }
			ShardNo int
		}
		return json.Unmarshal(data, &d) == nil
	}
	var d struct {
		Cache   []*struct{ Templates map[string]ipfix.Data }
		ShardNo int
	}
	return json.Unmarshal(data, &d) == nil
}

// entriesOfDoc reads the document leniently: every "key": {Template..., Timestamp} object found in a
// "Templates" object of an element of "Cache" that decodes STRICTLY into the cache's entry type is
// rendered the way entries() renders a loaded entry.
func (e *env) entriesOfDoc(data []byte) []string {
	var top struct{ Cache []json.RawMessage }
	if json.Unmarshal(data, &top) != nil {
		var loose map[string]json.RawMessage
		if json.Unmarshal(data, &loose) != nil || json.Unmarshal(loose["Cache"], &top.Cache) != nil {
			return nil
		}
	}
	var out []string
	for _, sh := range top.Cache {
		var shard struct{ Templates map[string]json.RawMessage }
		if json.Unmarshal(sh, &shard) != nil {
			continue
		}
		for k, raw := range shard.Templates {
			if e.v9 {
				var d netflow9.Data
				if json.Unmarshal(raw, &d) == nil {
					out = append(out, fmt.Sprintf("%v=%+v", k, d.Template))
				}
			} else {
				var d ipfix.Data
				if json.Unmarshal(raw, &d) == nil {
					out = append(out, fmt.Sprintf("%v=%+v", k, d.Template))
				}
			}
		}
	}
	return out
}

func copyFile(from, to string) {
	b, err := os.ReadFile(from)
	if err == nil {
		os.WriteFile(to, b, 0644)
	}
}

func subset(a, b []string) (bool, string) {
	set := map[string]bool{}
	for _, x := range b {
		set[x] = true
	}
	for _, x := range a {
		if !set[x] {
			return false, x
		}
	}
	return true, ""
}

func proto(v9 bool) string {
	if v9 {
		return "v9"
	}
	return "ipfix"
}

func wfile(name string, b []byte) string {
	p := filepath.Join(tmpDirGet(), name)
	if err := os.WriteFile(p, b, 0644); err != nil {
		panic(err)
	}
	return p
}

// checkLoad: load the file content, check never-panics (runner), usable, and (if saved != nil) subset.
func (e *env) checkLoad(c *mck.Ctx, sigp string, data []byte, saved [][]string, what func() interface{}, probe *content) {
	p := wfile("cache.json", data)
	lc := e.load(p)
	if saved == nil && !e.wellTyped(data) {
		// an ill-typed document (a number that does not fit its field, a string where an object
		// belongs ...): what it "saved" is at most those entries of it that are themselves well-typed
		// (a loader may reject the whole document or keep these; it may not keep a half-read entry)
		saved = [][]string{e.entriesOfDoc(data)}
	}
	if saved != nil {
		ents, err := e.entries(lc)
		if err != nil {
			c.Violation(sigp+":untraversable", err.Error(), what())
			return
		}
		okAny := false
		var miss string
		for _, s := range saved {
			if ok, m := subset(ents, s); ok {
				okAny = true
			} else {
				miss = m
			}
		}
		// subset of old OR of new is all-or-nothing per file generation; a mix must still be within the union
		if !okAny {
			var union []string
			for _, s := range saved {
				union = append(union, s...)
			}
			if ok, _ := subset(ents, union); !ok || len(saved) < 2 {
				c.Violation(sigp+":not-subset", "loaded cache holds a template that was not in the saved cache: "+miss, what())
				return
			}
		}
		if len(ents) == 0 {
			c.Outcome("loaded-empty")
		} else {
			c.Outcome("loaded-some")
		}
	}
	if msg := e.usable(lc); msg != "" {
		c.Violation(sigp+":unusable", msg, what())
	}
	if probe != nil {
		// whatever was loaded is then USED: data for every exporter/template of the content the file was
		// made from (the result is free - the entries may have been altered - but the decoder must cope)
		e.probeAll(lc, *probe)
	}
}

func init() {
	for _, v9 := range []bool{false, true} {
		v9 := v9
		p := proto(v9)
		spaces[p+".roundtrip"] = func(t string) mck.Space { return roundtrip(v9, t) }
		spaces[p+".crash"] = func(t string) mck.Space { return crashImages(v9, t) }
		spaces[p+".bytes"] = func(t string) mck.Space { return byteCorrupt(v9, t) }
		spaces[p+".struct"] = func(t string) mck.Space { return structural(v9, t) }
	}
}

// withBigContent appends a LARGE cache (thousands of exporters; the file is several MiB): nothing about saving and
// loading may depend on the file being small (round trips only - the crash and corruption spaces keep to the small ones).
func withBigContent(e *env, cs []content) []content {
	kinds := e.tplKinds()
	big := content{name: "3500-exporters-2-templates"}
	for i := 0; i < 3500; i++ {
		a := net.IPv4(10, 9, byte(i>>8), byte(i))
		for j, id := range []uint16{256, 300} {
			t := kinds[(i+j)%len(kinds)]
			t.ID = id
			big.tpls = append(big.tpls, tplSpec{a, t})
		}
	}
	return append(cs, big)
}

func roundtrip(v9 bool, tier string) mck.Space {
	e := newEnv(v9)
	cs := e.contents(tier)
	cs = withBigContent(e, cs)
	return mck.FuncSpace{N: uint64(len(cs)), F: func(idx uint64, c *mck.Ctx) {
		ct := cs[idx]
		what := func() interface{} {
			return map[string]interface{}{"content": ct.name, "templates": len(ct.tpls), "proto": proto(v9)}
		}
		c.SetCase(what)
		live := e.build(ct)
		p := filepath.Join(tmpDirGet(), "rt.json")
		if err := e.dump(live, p); err != nil {
			c.Violation(proto(v9)+":roundtrip:dump-error", err.Error(), what())
			return
		}
		loaded := e.load(p)
		a, _ := e.entries(live)
		b, err := e.entries(loaded)
		if err != nil || strings.Join(a, "\n") != strings.Join(b, "\n") {
			c.Violation(proto(v9)+":roundtrip:content-differs", fmt.Sprintf("saved %d templates, loaded %d (%v)", len(a), len(b), err), what())
			return
		}
		pa, pb := e.probeAll(live, ct), e.probeAll(loaded, ct)
		for i := range pa {
			if pa[i] != pb[i] {
				c.Violation(proto(v9)+":roundtrip:decode-differs", fmt.Sprintf("before: %s ; after restart: %s", pa[i], pb[i]), what())
				return
			}
			if !strings.Contains(pa[i], "[[") && len(ct.tpls) > 0 {
				c.Violation(proto(v9)+":roundtrip:probe-vacuous", pa[i], what())
				return
			}
		}
		// saved by ANOTHER process (as after a restart): same content, same decoding
		if self, err := os.Executable(); err == nil {
			// ... nor the same machine shape: the saving process runs with another number of processors
			// (GOMAXPROCS: a changed -cpu-cap, another host) than the loading one
			for _, procs := range []string{"", "1", "64", "255", "cpu0"} {
				po := filepath.Join(tmpDirGet(), "other.json")
				os.Remove(po)
				cmd := exec.Command(self, "-dumpcontent", tier, fmt.Sprint(idx), proto(v9), po)
				where := "another process"
				if procs == "cpu0" {
					// ... or is confined to ONE processor (a smaller machine, a cpuset): runtime.NumCPU() is 1 there
					ts, err := exec.LookPath("taskset")
					if err != nil {
						continue
					}
					cmd = exec.Command(ts, "-c", "0", self, "-dumpcontent", tier, fmt.Sprint(idx), proto(v9), po)
					where = "another process confined to one processor (taskset -c 0)"
				} else if procs != "" {
					cmd.Env = append(os.Environ(), "GOMAXPROCS="+procs)
					where = "another process running with GOMAXPROCS=" + procs
				}
				out, err := cmd.CombinedOutput()
				if err != nil {
					fmt.Fprintln(os.Stderr, "child process for the cross-process round trip failed:", err, string(out))
					os.Exit(3)
				}
				lo := e.load(po)
				co, erro := e.entries(lo)
				if erro != nil || strings.Join(co, "\n") != strings.Join(a, "\n") {
					c.Violation(proto(v9)+":roundtrip:other-process:content-differs", fmt.Sprintf("%s saved %d templates, this one loaded %d (%v)", where, len(a), len(co), erro), what())
					break
				} else {
					po2 := e.probeAll(lo, ct)
					bad := false
					for i := range pa {
						if pa[i] != po2[i] {
							c.Violation(proto(v9)+":roundtrip:other-process:decode-differs", fmt.Sprintf("in the saving process (%s): %s ; in the loading process: %s", where, pa[i], po2[i]), what())
							bad = true
							break
						}
					}
					if bad {
						break
					}
				}
			}
		}
		// a smaller cache saved over the file of a larger one (same path) must load back as the smaller one
		if idx > 0 {
			big := cs[len(cs)-1]
			pb := filepath.Join(tmpDirGet(), "shrink.json")
			e.dump(e.build(big), pb)
			e.dump(live, pb)
			cb, errb := e.entries(e.load(pb))
			if errb != nil || strings.Join(cb, "\n") != strings.Join(a, "\n") {
				c.Violation(proto(v9)+":roundtrip:overwrite-of-longer-file", fmt.Sprintf("saved %d templates over a file that held %d: loaded %d", len(a), len(big.tpls), len(cb)), what())
			}
		}
		// a run that starts from the file and only RE-DEFINES templates it already holds (no new exporter, no
		// new id), then saves: the next start must see the new definitions
		if len(ct.tpls) > 0 {
			kinds := e.tplKinds()
			mod := content{name: ct.name + "+redefined"}
			for j, ts := range ct.tpls {
				if j%3 == 0 {
					nt := kinds[(j/3+1)%len(kinds)]
					if fmt.Sprintf("%+v", nt.All()) == fmt.Sprintf("%+v", ts.t.All()) {
						nt = kinds[(j/3+2)%len(kinds)]
					}
					nt.ID = ts.t.ID
					mod.tpls = append(mod.tpls, tplSpec{ts.addr, nt})
				}
			}
			apply := func(cc *flowh.Caches) {
				for _, ts := range mod.tpls {
					st := ref.Set{Kind: ref.SetTemplates, Templates: []ref.Template{ts.t}}
					if e.v9 && ts.t.Options {
						st.Pad = (4 - (6+4*len(ts.t.All()))%4) % 4
					}
					flowh.Decode(e.v9, ts.addr, (&ref.Msg{V9: e.v9, Sets: []ref.Set{st}}).Encode(nil), cc)
				}
			}
			want := e.build(ct)
			apply(want)
			second := e.load(p) // "the next run": starts from the file
			apply(second)
			pm := filepath.Join(tmpDirGet(), "redefined.json")
			copyFile(p, pm) // the run saves to the file it started from
			e.dump(second, pm)
			wa, _ := e.entries(want)
			ga, errg := e.entries(e.load(pm))
			if errg != nil || strings.Join(wa, "\n") != strings.Join(ga, "\n") {
				c.Violation(proto(v9)+":roundtrip:redefinition-after-load-not-saved", fmt.Sprintf("a run loaded the file, %d of its %d templates were re-announced with another definition, it saved: the file does not hold the cache of that run (%v)", len(mod.tpls), len(ct.tpls), errg), what())
			}
		}
		// second generation: dump the loaded cache again, must be identical content
		p2 := filepath.Join(tmpDirGet(), "rt2.json")
		e.dump(loaded, p2)
		c2, _ := e.entries(e.load(p2))
		if strings.Join(c2, "\n") != strings.Join(a, "\n") {
			c.Violation(proto(v9)+":roundtrip:second-generation-differs", "", what())
		}
		if msg := e.usable(loaded); msg != "" {
			c.Violation(proto(v9)+":roundtrip:unusable", msg, what())
		}
		c.Nontrivial(mck.HashStr(ct.name, proto(v9)))
		c.States(1)
		c.Transitions(3)
		c.Outcome(fmt.Sprintf("templates=%d", len(a)))
		c.Sample(func() interface{} {
			m := what().(map[string]interface{})
			b, _ := os.ReadFile(p)
			m["file_octets"] = len(b)
			m["probe_example"] = append(pa, "")[0]
			return m
		})
	}}
}

// write model observed with strace (see run/checks.py): kinds of images the target path can show after a crash
type writeModel struct {
	Kinds  []string `json:"kinds"` // subset of: old empty prefix zerofill full
	Source string   `json:"source"`
}

func loadWriteModel() writeModel {
	var m writeModel
	if s := os.Getenv("VERIF_WRITE_MODEL"); s != "" {
		if err := json.Unmarshal([]byte(s), &m); err == nil && len(m.Kinds) > 0 {
			return m
		}
	}
	return writeModel{Kinds: []string{"old", "empty", "prefix", "zerofill", "full"}, Source: "assumed: open(O_TRUNC) + write + close (strace unavailable)"}
}

type image struct {
	kind string
	n, m int
}

func crashImages(v9 bool, tier string) mck.Space {
	e := newEnv(v9)
	cs := e.contents(tier)
	wm := loadWriteModel()
	has := map[string]bool{}
	for _, k := range wm.Kinds {
		has[k] = true
	}
	type root struct {
		ct   int
		imgs []image
		neu  []byte
		old  []byte
	}
	var roots []root
	var cum []uint64
	total := uint64(0)
	for i, ct := range cs {
		p := filepath.Join(tmpDirGet(), fmt.Sprintf("new%d.json", i))
		e.dump(e.build(ct), p)
		neu, _ := os.ReadFile(p)
		// the old generation: the previous content (a different, smaller cache)
		po := filepath.Join(tmpDirGet(), fmt.Sprintf("old%d.json", i))
		e.dump(e.build(cs[(i+len(cs)-1)%len(cs)]), po)
		old, _ := os.ReadFile(po)
		var imgs []image
		if has["old"] {
			imgs = append(imgs, image{"old", 0, 0})
		}
		if has["empty"] {
			imgs = append(imgs, image{"empty", 0, 0})
		}
		if has["prefix"] {
			for n := 1; n < len(neu); n++ {
				imgs = append(imgs, image{"prefix", n, 0})
			}
		}
		if has["zerofill"] {
			for _, blk := range []int{512, 4096} {
				for n := 0; n < len(neu); n += blk {
					for _, to := range []int{n + blk, len(neu)} {
						if to > len(neu) {
							to = len(neu)
						}
						if to > n {
							imgs = append(imgs, image{"zerofill", n, to})
						}
					}
				}
			}
		}
		if has["full"] {
			imgs = append(imgs, image{"full", len(neu), 0})
		}
		roots = append(roots, root{i, imgs, neu, old})
		cum = append(cum, total)
		total += uint64(len(imgs))
	}
	saved := make([][][]string, len(cs))
	return mck.FuncSpace{N: total, F: func(idx uint64, c *mck.Ctx) {
		ri := sort.Search(len(cum), func(i int) bool { return cum[i] > idx }) - 1
		r := roots[ri]
		im := r.imgs[idx-cum[ri]]
		if saved[ri] == nil {
			a, _ := e.entries(e.build(cs[r.ct]))
			b, _ := e.entries(e.build(cs[(r.ct+len(cs)-1)%len(cs)]))
			saved[ri] = [][]string{a, b}
		}
		var data []byte
		switch im.kind {
		case "old":
			data = r.old
		case "empty":
			data = []byte{}
		case "prefix":
			data = r.neu[:im.n]
		case "zerofill":
			data = append(append([]byte{}, r.neu[:im.n]...), make([]byte, im.m-im.n)...)
		case "full":
			data = r.neu
		}
		what := func() interface{} {
			return map[string]interface{}{"proto": proto(v9), "content": cs[r.ct].name, "image": im.kind, "kept_octets": im.n, "zero_filled_to": im.m, "file_octets": len(r.neu), "write_model": wm.Source}
		}
		c.SetCase(what)
		e.checkLoad(c, proto(v9)+":crash-image:"+im.kind, data, saved[ri], what, &cs[r.ct])
		c.Nontrivial(mck.Hash64(data, []byte(im.kind)))
		if idx%4001 == 0 {
			c.Sample(what)
		}
	}}
}

var substVals = []byte{0x00, '"', '{', '}', '[', ']', ',', ':', '0', '9', 'n', ' ', 0xff}

func byteCorrupt(v9 bool, tier string) mck.Space {
	e := newEnv(v9)
	cs := e.contents(tier)
	if tier != "thorough" {
		cs = cs[:5]
	} else if len(cs) > 18 {
		cs = cs[:18] // the six base contents and the mixed ones with 2..13 exporters: ~3 million corruptions per protocol
	}
	var files [][]byte
	var cum []uint64
	total := uint64(0)
	per := len(substVals) + 2
	for i, ct := range cs {
		p := filepath.Join(tmpDirGet(), fmt.Sprintf("b%d.json", i))
		e.dump(e.build(ct), p)
		b, _ := os.ReadFile(p)
		files = append(files, b)
		cum = append(cum, total)
		total += uint64(len(b) * per)
	}
	return mck.FuncSpace{N: total, F: func(idx uint64, c *mck.Ctx) {
		fi := sort.Search(len(cum), func(i int) bool { return cum[i] > idx }) - 1
		off := int(idx - cum[fi])
		pos, k := off/per, off%per
		src := files[fi]
		var data []byte
		kind := ""
		switch {
		case k < len(substVals):
			if src[pos] == substVals[k] {
				c.Skip()
				return
			}
			data = append([]byte{}, src...)
			data[pos] = substVals[k]
			kind = "subst"
		case k == len(substVals):
			data = append(append([]byte{}, src[:pos]...), src[pos+1:]...)
			kind = "delete"
		default:
			data = append(append(append([]byte{}, src[:pos+1]...), src[pos]), src[pos+1:]...)
			kind = "duplicate"
		}
		what := func() interface{} {
			lo, hi := pos-30, pos+30
			if lo < 0 {
				lo = 0
			}
			if hi > len(data) {
				hi = len(data)
			}
			return map[string]interface{}{"proto": proto(v9), "content": cs[fi].name, "mutation": kind, "position": pos, "value": k, "context": string(data[lo:hi])}
		}
		c.SetCase(what)
		e.checkLoad(c, proto(v9)+":corrupt:"+kind, data, nil, what, &cs[fi])
		c.Nontrivial(mck.Hash64(data))
		if json.Valid(data) {
			c.Outcome("still-valid-json")
		} else {
			c.Outcome("invalid-json")
		}
		if idx%50021 == 0 {
			c.Sample(what)
		}
	}}
}

func structural(v9 bool, tier string) mck.Space {
	e := newEnv(v9)
	shard := `{"Templates":{"k1":{"Template":{"TemplateID":256,"FieldCount":1,"FieldSpecifiers":[{"ElementID":10,"Length":4,"EnterpriseNo":0}],"ScopeFieldCount":0,"ScopeFieldSpecifiers":null},"Timestamp":1}}}`
	rep := func(s string, n int) string {
		var p []string
		for i := 0; i < n; i++ {
			p = append(p, s)
		}
		return "[" + strings.Join(p, ",") + "]"
	}
	with := func(at int, odd string) string {
		var p []string
		for i := 0; i < 32; i++ {
			if i == at {
				p = append(p, odd)
			} else {
				p = append(p, `{"Templates":{}}`)
			}
		}
		return "[" + strings.Join(p, ",") + "]"
	}
	tplWith := func(field string) string {
		return `{"Templates":{"k1":{"Template":{"TemplateID":256,"FieldCount":1,` + field + `,"ScopeFieldCount":0,"ScopeFieldSpecifiers":null},"Timestamp":1}}}`
	}
	caches := map[string]string{
		"absent": "", "null": "null", "empty-array": "[]", "31-shards": rep(shard, 31), "33-shards": rep(shard, 33), "32-good": rep(shard, 32),
		"32-null": rep("null", 32), "first-null": with(0, "null"), "last-null": with(31, "null"), "32-empty-objects": rep("{}", 32),
		"32-templates-null": rep(`{"Templates":null}`, 32), "one-templates-null": with(5, `{"Templates":null}`), "templates-array": with(3, `{"Templates":[]}`),
		"templates-number": with(3, `{"Templates":7}`), "value-null": with(2, `{"Templates":{"k":null}}`), "template-number": with(2, `{"Templates":{"k":{"Template":5,"Timestamp":1}}}`),
		"timestamp-string": with(2, `{"Templates":{"k":{"Template":{},"Timestamp":"x"}}}`), "specifiers-null": with(1, tplWith(`"FieldSpecifiers":null`)),
		"specifiers-null-entry": with(1, tplWith(`"FieldSpecifiers":[null]`)), "length-negative": with(1, tplWith(`"FieldSpecifiers":[{"ElementID":10,"Length":-1}]`)),
		"length-float": with(1, tplWith(`"FieldSpecifiers":[{"ElementID":10,"Length":1.5}]`)), "length-overflow": with(1, tplWith(`"FieldSpecifiers":[{"ElementID":10,"Length":70000}]`)),
		"length-zero": with(1, tplWith(`"FieldSpecifiers":[{"ElementID":10,"Length":0}]`)), "cache-object": "{}", "cache-string": `"x"`, "shard-array": with(0, "[]"), "shard-number": with(0, "3"),
		"numeric-keys-old-format": with(4, `{"Templates":{"373519680":{"Template":{"TemplateID":256,"FieldCount":1,"FieldSpecifiers":[{"ElementID":10,"Length":4}]},"Timestamp":1}}}`),
	}
	shardNos := map[string]string{"absent": "", "0": "0", "31": "31", "32": "32", "33": "33", "string": `"32"`, "null": "null", "float": "32.0", "exp": "3.2e1", "negative": "-32", "huge": "99999999999999999999"}
	var cn, sn []string
	for k := range caches {
		cn = append(cn, k)
	}
	for k := range shardNos {
		sn = append(sn, k)
	}
	sort.Strings(cn)
	sort.Strings(sn)
	files := []string{"absent-file", "empty-file", "directory", "not-json", "array-doc", "null-doc", "nested-deep",
		// a file as the collector itself writes it (real keys of a real exporter), whose templates are degenerate in a way
		// another release may have let into its cache: what is loaded is then USED - data for that very exporter and id
		"saved-templates-all-lengths-zero", "saved-templates-without-fields", "saved-templates-all-lengths-65535", "saved-templates-field-count-larger-than-list"}
	dims := mck.Radix{uint64(len(cn)), uint64(len(sn)), 2}
	nStruct := dims.Size()
	return mck.FuncSpace{N: nStruct + uint64(len(files)), F: func(idx uint64, c *mck.Ctx) {
		var data []byte
		name := ""
		if idx < nStruct {
			d := dims.Digits(idx)
			var parts []string
			if caches[cn[d[0]]] != "" {
				parts = append(parts, `"Cache":`+caches[cn[d[0]]])
			}
			if shardNos[sn[d[1]]] != "" {
				parts = append(parts, `"ShardNo":`+shardNos[sn[d[1]]])
			}
			if d[2] == 1 && len(parts) == 2 {
				parts[0], parts[1] = parts[1], parts[0]
			}
			data = []byte("{" + strings.Join(parts, ",") + "}")
			name = fmt.Sprintf("Cache=%s ShardNo=%s order=%d", cn[d[0]], sn[d[1]], d[2])
		} else {
			name = files[idx-nStruct]
		}
		what := func() interface{} {
			s := string(data)
			if len(s) > 600 {
				s = s[:600] + "..."
			}
			return map[string]interface{}{"proto": proto(v9), "document": name, "content": s}
		}
		c.SetCase(what)
		c.Nontrivial(mck.HashStr(name, proto(v9)))
		sig := proto(v9) + ":structure"
		switch name {
		case "absent-file":
			lc := e.load(filepath.Join(tmpDirGet(), "does-not-exist"))
			if m := e.usable(lc); m != "" {
				c.Violation(sig+":unusable", m, what())
			}
			return
		case "directory":
			lc := e.load(tmpDirGet())
			if m := e.usable(lc); m != "" {
				c.Violation(sig+":unusable", m, what())
			}
			return
		case "saved-templates-all-lengths-zero", "saved-templates-without-fields", "saved-templates-all-lengths-65535", "saved-templates-field-count-larger-than-list":
			kinds := e.tplKinds()
			ct := content{name: name}
			for i := 0; i < 2 && i < len(kinds); i++ {
				t := kinds[i]
				t.ID = uint16(256 + i)
				ct.tpls = append(ct.tpls, tplSpec{net.IPv4(192, 0, 2, 77), t})
			}
			p := filepath.Join(tmpDirGet(), "degenerate.json")
			if err := e.dump(e.build(ct), p); err != nil {
				fmt.Fprintln(os.Stderr, "structural: dump failed:", err)
				os.Exit(3)
			}
			raw, _ := os.ReadFile(p)
			var doc interface{}
			if json.Unmarshal(raw, &doc) != nil {
				fmt.Fprintln(os.Stderr, "structural: the dump is not JSON")
				os.Exit(3)
			}
			var walk func(v interface{})
			walk = func(v interface{}) {
				switch x := v.(type) {
				case []interface{}:
					for _, y := range x {
						walk(y)
					}
				case map[string]interface{}:
					for k, y := range x {
						if (k == "FieldSpecifiers" || k == "ScopeFieldSpecifiers") && y != nil {
							l, _ := y.([]interface{})
							switch name {
							case "saved-templates-without-fields":
								x[k] = []interface{}{}
							case "saved-templates-field-count-larger-than-list":
								if len(l) > 1 {
									x[k] = l[:1]
								}
							default:
								for _, f := range l {
									if fm, ok := f.(map[string]interface{}); ok {
										if name == "saved-templates-all-lengths-zero" {
											fm["Length"] = 0
										} else {
											fm["Length"] = 65535
										}
									}
								}
							}
							continue
						}
						if (k == "FieldCount" || k == "ScopeFieldCount") && name == "saved-templates-without-fields" {
							x[k] = 0
							continue
						}
						walk(y)
					}
				}
			}
			walk(doc)
			data, _ = json.Marshal(doc)
			e.checkLoad(c, sig, data, nil, what, &ct)
			c.Outcome("degenerate saved templates used")
			c.Sample(what)
			return
		case "empty-file":
			data = []byte{}
		case "not-json":
			data = []byte("templates: yes\n")
		case "array-doc":
			data = []byte("[1,2,3]")
		case "null-doc":
			data = []byte("null")
		case "nested-deep":
			data = []byte(strings.Repeat("[", 20000))
		}
		e.checkLoad(c, sig, data, nil, what, nil)
		c.Outcome(fmt.Sprintf("valid=%v", json.Valid(data)))
		c.Sample(what)
	}}
}

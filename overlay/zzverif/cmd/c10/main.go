// c10: concurrent decoding, dumping and peer lookups keep the template cache sound.
// Real ipfix / netflow9 cache code (memcache.go instrumented: sync -> vsync) under the
// controlled scheduler; every explored schedule is race-checked (-race build, invisible baton).
package main

import (
	"fmt"
	"net"
	"os"
	"path/filepath"
	"sort"
	"strings"
	"sync"
	"time"

	"github.com/EdgeCast/vflow/ipfix"
	netflow9 "github.com/EdgeCast/vflow/netflow/v9"
	"github.com/EdgeCast/vflow/zzverif/flowh"
	"github.com/EdgeCast/vflow/zzverif/mck"
	"github.com/EdgeCast/vflow/zzverif/ref"
	"github.com/EdgeCast/vflow/zzverif/sched"
	"github.com/EdgeCast/vflow/zzverif/venv"
)

var tmpDirOnce string

// tmpDir is created lazily (under VERIF_TMP, which the orchestrator removes after the run)
func tmpDirGet() string {
	if tmpDirOnce != "" {
		return tmpDirOnce
	}
	d := os.Getenv("VERIF_TMP")
	if d == "" {
		d = os.TempDir()
	}
	p, err := os.MkdirTemp(d, "c10w")
	if err != nil {
		panic(err)
	}
	tmpDirOnce = p
	return p
}

// template versions: same record length (8), different field lists
func versions() [][]ref.Field {
	by := flowh.ElemByType()
	f := func(t ref.AType) ref.Field { return ref.Field{ID: by[t], Len: uint16(t.NaturalLen()), Type: t} }
	// v1/v2 and v3/v4 have the same field count and lengths but different elements: a cache that
	// judges "unchanged" by shape would keep serving the superseded one
	return [][]ref.Field{
		{f(ref.TU64)},
		{f(ref.TU32), f(ref.TU32)},
		{f(ref.TIPv4), f(ref.TU32)},
		{f(ref.TU16), f(ref.TU16), f(ref.TU16), f(ref.TU16)},
		{f(ref.TU16), f(ref.TU16), f(ref.TU32)}, // shares a prefix with v3
		// v5 (IPFIX scenarios only): a variable-length field first - the probe body reads as length 1, one
		// octet, then u16, u32. Whatever a decoder learns about the actual length belongs to the record,
		// not to the template shared through the cache.
		{{ID: by[ref.TString], Len: 65535, Type: ref.TString}, f(ref.TU16), f(ref.TU32)},
	}
}

var probeBody = []byte{1, 2, 3, 4, 5, 6, 7, 8}

type key struct {
	addr net.IP
	id   uint16
}

// op record of the call/return history
type opRec struct {
	thread     int
	kind       string // write read dump
	key        int
	ver        int // written version / version read (-1 none, -2 torn/foreign)
	start, end int
	note       string
}

type env struct {
	v9   bool
	vers [][]ref.Field
	keys []key // 0: k, 1: same shard as k, 2: another shard, 3: another template id of k's exporter
}

func (e *env) tmsg(k, v int) []byte {
	t := ref.Template{ID: e.keys[k].id, Fields: e.vers[v]}
	return (&ref.Msg{V9: e.v9, Hdr: [5]uint32{1, 1, 1, 1, 1}, Sets: []ref.Set{{Kind: ref.SetTemplates, Templates: []ref.Template{t}}}}).Encode(nil)
}

func (e *env) dmsg(k int) []byte {
	return (&ref.Msg{V9: e.v9, Hdr: [5]uint32{1, 1, 1, 1, 1}, Sets: []ref.Set{{Kind: ref.SetRaw, RawID: e.keys[k].id, RawBody: probeBody}}}).Encode(nil)
}

// classify: which version do these decoded records correspond to?
func (e *env) classify(recs [][]ref.ExpField, unknown bool) int {
	if len(recs) == 0 {
		if unknown {
			return -1
		}
		return -2
	}
	for v, fs := range e.vers {
		var want []ref.ExpField
		off := 0
		for _, f := range fs {
			l := int(f.Len)
			if f.Len == 65535 { // variable length, one-octet prefix
				l = int(probeBody[off])
				off++
			}
			want = append(want, ref.ExpField{ID: f.ID, Value: ref.Interpret(f.Type, probeBody[off:off+l])})
			off += l
		}
		if cls, _ := flowh.CompareRecords(recs, [][]ref.ExpField{want}); cls == "" {
			return v
		}
	}
	return -2
}

func (e *env) classifySpecs(ids []uint16, lens []uint16) int {
	for v, fs := range e.vers {
		if len(fs) != len(ids) {
			continue
		}
		ok := true
		for i, f := range fs {
			if f.ID != ids[i] || f.Len != lens[i] {
				ok = false
			}
		}
		if ok {
			return v
		}
	}
	return -2
}

// thread programs
type prog struct {
	name string
	run  func(e *env, c *flowh.Caches, tid int, rec func(opRec))
}

func annProg(k int, vs ...int) prog {
	return prog{fmt.Sprintf("announce(k%d,%v)", k, vs), func(e *env, c *flowh.Caches, tid int, rec func(opRec)) {
		for _, v := range vs {
			s := sched.Step()
			flowh.Decode(e.v9, e.keys[k].addr, e.tmsg(k, v), c)
			rec(opRec{tid, "write", k, v, s, sched.Step(), "decode template"})
		}
	}}
}

// annMultiProg: ONE message whose template set carries two template records (ids of the same exporter)
func annMultiProg(ka, va, kb, vb int) prog {
	return prog{fmt.Sprintf("announce-in-one-set(k%d:v%d,k%d:v%d)", ka, va, kb, vb), func(e *env, c *flowh.Caches, tid int, rec func(opRec)) {
		s := sched.Step()
		ts := []ref.Template{{ID: e.keys[ka].id, Fields: e.vers[va]}, {ID: e.keys[kb].id, Fields: e.vers[vb]}}
		m := (&ref.Msg{V9: e.v9, Hdr: [5]uint32{1, 1, 1, 1, 1}, Sets: []ref.Set{{Kind: ref.SetTemplates, Templates: ts}}}).Encode(nil)
		flowh.Decode(e.v9, e.keys[ka].addr, m, c)
		end := sched.Step()
		rec(opRec{tid, "write", ka, va, s, end, "decode template set (1st record)"})
		rec(opRec{tid, "write", kb, vb, s, end, "decode template set (2nd record)"})
	}}
}

func datProg(k, n int) prog {
	return prog{fmt.Sprintf("data(k%d)x%d", k, n), func(e *env, c *flowh.Caches, tid int, rec func(opRec)) {
		for i := 0; i < n; i++ {
			s := sched.Step()
			r := flowh.Decode(e.v9, e.keys[k].addr, e.dmsg(k), c)
			unknown := r.Err != nil && strings.Contains(r.Err.Error(), "unknown")
			rec(opRec{tid, "read", k, e.classify(r.Records, unknown), s, sched.Step(), "decode data"})
		}
	}}
}

func insProg(k, v int) prog {
	return prog{fmt.Sprintf("peer-insert(k%d,v%d)", k, v), func(e *env, c *flowh.Caches, tid int, rec func(opRec)) {
		s := sched.Step()
		a := append(net.IP{}, e.keys[k].addr...)
		if e.v9 {
			tr := netflow9.TemplateRecord{TemplateID: e.keys[k].id, FieldCount: uint16(len(e.vers[v]))}
			for _, f := range e.vers[v] {
				tr.FieldSpecifiers = append(tr.FieldSpecifiers, netflow9.TemplateFieldSpecifier{ElementID: f.ID, Length: f.Len})
			}
			netflow9.VerifInsert(c.N, e.keys[k].id, a, tr)
		} else {
			tr := ipfix.TemplateRecord{TemplateID: e.keys[k].id, FieldCount: uint16(len(e.vers[v]))}
			for _, f := range e.vers[v] {
				tr.FieldSpecifiers = append(tr.FieldSpecifiers, ipfix.TemplateFieldSpecifier{ElementID: f.ID, Length: f.Len})
			}
			ipfix.VerifInsert(c.I, e.keys[k].id, a, tr)
		}
		rec(opRec{tid, "write", k, v, s, sched.Step(), "peer-fetched insert"})
	}}
}

func rpcProg(k, n int) prog {
	return prog{fmt.Sprintf("peer-get(k%d)x%d", k, n), func(e *env, c *flowh.Caches, tid int, rec func(opRec)) {
		for i := 0; i < n; i++ {
			s := sched.Step()
			var resp ipfix.TemplateRecord
			err := ipfix.NewRPC(c.I).Get(ipfix.RPCRequest{ID: e.keys[k].id, IP: append(net.IP{}, e.keys[k].addr...)}, &resp)
			v := -1
			if err == nil {
				var ids, lens []uint16
				for _, f := range resp.FieldSpecifiers {
					ids, lens = append(ids, f.ElementID), append(lens, f.Length)
				}
				v = e.classifySpecs(ids, lens)
				if resp.TemplateID != e.keys[k].id {
					v = -2
				}
			}
			rec(opRec{tid, "read", k, v, s, sched.Step(), "IRPC.Get"})
		}
	}}
}

// aged: the thread first lets one second of (virtual) time pass - what it then finds in the cache
// is no longer "of this second"
func aged(p prog) prog {
	return prog{"after 1 s: " + p.name, func(e *env, c *flowh.Caches, tid int, rec func(opRec)) {
		sched.Sleep(1e9)
		p.run(e, c, tid, rec)
	}}
}

// agedBy: the same after secs seconds - an entry that is by now older than any refresh / expiry period a cache may have
func agedBy(p prog, secs int64) prog {
	return prog{fmt.Sprintf("after %d s: %s", secs, p.name), func(e *env, c *flowh.Caches, tid int, rec func(opRec)) {
		sched.Sleep(secs * 1e9)
		p.run(e, c, tid, rec)
	}}
}

func dmpProg(file string) prog {
	return prog{"dump+load", func(e *env, c *flowh.Caches, tid int, rec func(opRec)) {
		p := filepath.Join(tmpDirGet(), file)
		s := sched.Step()
		var err error
		if e.v9 {
			err = c.N.Dump(p)
		} else {
			err = c.I.Dump(p)
		}
		end := sched.Step()
		note := ""
		if err != nil {
			note = "dump error: " + err.Error()
		} else {
			// load back: every entry must be a complete announced template for its own key
			var bad []string
			check := func(tid uint16, ids, lens []uint16) {
				if e.classifySpecs(ids, lens) < 0 {
					bad = append(bad, fmt.Sprintf("template %d %v/%v", tid, ids, lens))
				}
			}
			n := 0
			if e.v9 {
				for _, sh := range netflow9.GetCache(p) {
					for _, d := range sh.Templates {
						var ids, lens []uint16
						for _, f := range d.Template.FieldSpecifiers {
							ids, lens = append(ids, f.ElementID), append(lens, f.Length)
						}
						check(d.Template.TemplateID, ids, lens)
						n++
					}
				}
			} else {
				for _, sh := range ipfix.GetCache(p) {
					for _, d := range sh.Templates {
						var ids, lens []uint16
						for _, f := range d.Template.FieldSpecifiers {
							ids, lens = append(ids, f.ElementID), append(lens, f.Length)
						}
						check(d.Template.TemplateID, ids, lens)
						n++
					}
				}
			}
			note = fmt.Sprintf("loaded %d templates", n)
			if len(bad) > 0 {
				note = "INCOMPLETE " + strings.Join(bad, "; ")
			}
		}
		rec(opRec{tid, "dump", -1, 0, s, end, note})
	}}
}

type scenario struct {
	name      string
	pre       bool // key 0 pre-announced with version 0
	progs     []prog
	ipfixOnly bool
}

func scenarios() []scenario {
	var out []scenario
	add := func(name string, ipfixOnly bool, ps ...prog) {
		for _, pre := range []bool{false, true} {
			n := name
			if pre {
				n += " [v0 pre-announced]"
			}
			out = append(out, scenario{n, pre, ps, ipfixOnly})
		}
	}
	add("announce|data|dump", false, annProg(0, 1, 2), datProg(0, 2), dmpProg("a.json"))
	add("announce|data|peer-get", true, annProg(0, 1, 2), datProg(0, 2), rpcProg(0, 2))
	add("announce|peer-insert|data", false, annProg(0, 1, 2), insProg(0, 3), datProg(0, 2))
	add("announce|other-same-shard|data", false, annProg(0, 1, 2), annProg(1, 3), datProg(0, 2))
	add("announce|other-shard|dump", false, annProg(0, 1), annProg(2, 3), dmpProg("a.json"))
	add("announce|announce|data", false, annProg(0, 1, 2), annProg(0, 3, 4), datProg(0, 1))
	add("dump|dump|announce", false, dmpProg("a.json"), dmpProg("b.json"), annProg(0, 1, 2))
	add("peer-insert|peer-get|dump", true, insProg(0, 3), rpcProg(0, 2), dmpProg("a.json"))
	add("data|peer-get|other-same-shard", true, datProg(0, 2), rpcProg(0, 1), annProg(1, 2))
	add("announce|dump|peer-get", true, annProg(0, 1, 2), dmpProg("a.json"), rpcProg(0, 2))
	add("data|data|announce", false, datProg(0, 2), datProg(0, 2), annProg(0, 1, 2))
	add("aged data|aged data|aged dump", false, aged(datProg(0, 1)), aged(datProg(0, 1)), aged(dmpProg("a.json")))
	add("aged data|aged peer-get|announce", true, aged(datProg(0, 1)), aged(rpcProg(0, 1)), annProg(0, 1))
	add("variable-length template: announce|data|peer-get", true, annProg(0, 5), datProg(0, 2), rpcProg(0, 2))
	add("variable-length template: data|data|dump", true, annProg(0, 5, 1), datProg(0, 2), dmpProg("a.json"))
	add("two-templates-in-one-set|data|data", false, annMultiProg(0, 1, 3, 4), datProg(0, 2), datProg(3, 2))
	add("two-templates-in-one-set|dump|peer-get", true, annMultiProg(0, 2, 3, 3), dmpProg("a.json"), rpcProg(0, 2))
	// an entry that has grown old (an hour, a day: e.g. loaded from the cache file after a restart) looked up while it is re-announced
	add("hour-old entry: data|announce", false, agedBy(datProg(0, 2), 3600), agedBy(annProg(0, 1), 3600))
	add("day-old entry: data|peer-get|announce", true, agedBy(datProg(0, 1), 90000), agedBy(rpcProg(0, 2), 90000), agedBy(annProg(0, 1, 2), 90000))
	add("hour-old entry: data|announce|dump", false, agedBy(datProg(0, 2), 3600), agedBy(annProg(0, 1), 3600), agedBy(dmpProg("a.json"), 3600))
	add("two-templates-in-one-set|dump|data", false, annMultiProg(0, 2, 3, 3), dmpProg("a.json"), datProg(0, 2))
	return out
}

// linearizable: is there a total order of the register operations on each key, consistent
// with real-time order, in which every read returns the latest write (or none)?
func linearizable(ops []opRec, initial map[int]int) (bool, string) {
	byKey := map[int][]opRec{}
	for _, o := range ops {
		if o.kind == "write" || o.kind == "read" {
			byKey[o.key] = append(byKey[o.key], o)
		}
	}
	for k, os := range byKey {
		init, has := initial[k]
		if !has {
			init = -1
		}
		n := len(os)
		used := make([]bool, n)
		var rec func(done int, cur int) bool
		rec = func(done int, cur int) bool {
			if done == n {
				return true
			}
			for i := 0; i < n; i++ {
				if used[i] {
					continue
				}
				// real-time order: i may come next only if no unused op ended before i started
				ok := true
				for j := 0; j < n; j++ {
					// (operations of one thread are in program order; their step stamps may coincide)
					if !used[j] && j != i && (os[j].end < os[i].start || (os[j].thread == os[i].thread && j < i)) {
						ok = false
						break
					}
				}
				if !ok {
					continue
				}
				nc := cur
				if os[i].kind == "write" {
					nc = os[i].ver
				} else if os[i].ver != cur {
					continue
				}
				used[i] = true
				if rec(done+1, nc) {
					return true
				}
				used[i] = false
			}
			return false
		}
		if !rec(0, init) {
			var s []string
			for _, o := range os {
				s = append(s, fmt.Sprintf("t%d %s v%d [%d,%d]", o.thread, o.kind, o.ver, o.start, o.end))
			}
			return false, fmt.Sprintf("key %d: history not linearizable w.r.t. a register: %s", k, strings.Join(s, " ; "))
		}
	}
	return true, ""
}

// race log handling: GORACE=log_path=<p> makes the runtime append reports to <p>.<pid>
var raceLog = func() string {
	for _, kv := range strings.Fields(os.Getenv("GORACE")) {
		if strings.HasPrefix(kv, "log_path=") {
			return strings.TrimPrefix(kv, "log_path=") + "." + fmt.Sprint(os.Getpid())
		}
	}
	return ""
}()
var raceSeen int64

func newRaceReport() string {
	if raceLog == "" {
		return ""
	}
	st, err := os.Stat(raceLog)
	if err != nil || st.Size() <= raceSeen {
		return ""
	}
	b, _ := os.ReadFile(raceLog)
	rep := string(b[raceSeen:])
	raceSeen = st.Size()
	return rep
}

// raceSig: the two innermost vflow frames of the report
func raceSig(rep string) string {
	var sites []string
	for _, blk := range strings.Split(rep, "\n\n") {
		if !(strings.Contains(blk, "by goroutine") || strings.Contains(blk, "by main goroutine")) || strings.HasPrefix(strings.TrimSpace(blk), "Goroutine") {
			continue
		}
		lines := strings.Split(blk, "\n")
		for _, l := range lines {
			l = strings.TrimSpace(l)
			if strings.HasPrefix(l, "github.com/EdgeCast/vflow/") && !strings.Contains(l, "zzverif") || strings.HasPrefix(l, "main.") {
				f := l
				if j := strings.Index(f, "("); j > 0 && !strings.HasPrefix(f[j:], "(*") {
					f = f[:j]
				} else if j := strings.LastIndex(f, "("); j > 0 {
					f = f[:j]
				}
				f = strings.TrimPrefix(f, "github.com/EdgeCast/vflow/")
				sites = append(sites, f)
				break
			}
		}
		if len(sites) == 2 {
			break
		}
	}
	sort.Strings(sites)
	return "race:" + strings.Join(sites, "|")
}

func bound(tier string) int {
	if tier == "thorough" {
		return 4
	}
	return 3
}

func schedSpace(tier string) mck.Space {
	flowh.InstallExtra()
	// 4 shards instead of 32: the cache code is generic in the shard count, and every dump
	// takes each shard's lock once (scheduling points per dump: 2 x shards)
	ipfix.VerifSetShardNo(4)
	netflow9.VerifSetShardNo(4)
	scs := scenarios()
	type item struct {
		v9 bool
		sc scenario
	}
	var items []item
	for _, sc := range scs {
		items = append(items, item{false, sc})
		if !sc.ipfixOnly {
			items = append(items, item{true, sc})
		}
	}
	return mck.FuncSpace{N: uint64(len(items)), F: func(idx uint64, c *mck.Ctx) {
		it := items[idx]
		tmpDirGet() // created here, not lazily by whichever scheduler thread dumps first
		e := &env{v9: it.v9, vers: versions()}
		// keys: k, one in the same shard, one in another shard (found empirically on the exported structure)
		k0 := key{net.ParseIP("192.0.2.10"), 256}
		shardOf := func(k key) int {
			cc := flowh.NewCaches()
			flowh.Decode(e.v9, k.addr, (&ref.Msg{V9: e.v9, Sets: []ref.Set{{Kind: ref.SetTemplates, Templates: []ref.Template{{ID: k.id, Fields: e.vers[0]}}}}}).Encode(nil), cc)
			if e.v9 {
				for i, sh := range cc.N {
					if len(sh.Templates) > 0 {
						return i
					}
				}
			} else {
				for i, sh := range cc.I {
					if len(sh.Templates) > 0 {
						return i
					}
				}
			}
			return -1
		}
		// k0 and its same-shard neighbour are chosen text-ambiguous ("10.0.0.1"+"2256" = "10.0.0.12"+"256"):
		// distinct as (address, id), equal under a key derived carelessly from their text forms
	search:
		for id := 256; id < 1000; id++ {
			for d := 1; d <= 9; d++ {
				a := key{net.ParseIP("10.0.0.1"), uint16(d*1000 + id)}
				b := key{net.ParseIP(fmt.Sprintf("10.0.0.1%d", d)), uint16(id)}
				if shardOf(a) == shardOf(b) {
					k0 = a
					e.keys = []key{k0, b, {}, {k0.addr, 257}}
					break search
				}
			}
		}
		s0 := shardOf(k0)
		if e.keys == nil {
			e.keys = []key{k0, {}, {}, {k0.addr, 257}}
		}
		for i := 1; i < 250 && (e.keys[1].addr == nil || e.keys[2].addr == nil); i++ {
			k := key{net.ParseIP(fmt.Sprintf("198.51.100.%d", i)), 256}
			if s := shardOf(k); s == s0 && e.keys[1].addr == nil {
				e.keys[1] = k
			} else if s != s0 && e.keys[2].addr == nil {
				e.keys[2] = k
			}
		}
		proto := "ipfix"
		if e.v9 {
			proto = "v9"
		}
		desc := func() interface{} {
			var ps []string
			for _, p := range it.sc.progs {
				ps = append(ps, p.name)
			}
			return map[string]interface{}{"protocol": proto, "scenario": it.sc.name, "threads": ps, "bound": bound(tier)}
		}
		c.SetCase(desc)
		var obsMu sync.Mutex // real mutex: harness thread -> controller edge for the observation log
		var obsV string
		setObs := func(s string) { obsMu.Lock(); obsV = s; obsMu.Unlock() }
		getObs := func() string { obsMu.Lock(); defer obsMu.Unlock(); return obsV }
		body := func() {
			recs := make([][]opRec, len(it.sc.progs)) // fresh per execution
			setObs("")
			cc := flowh.NewCaches()
			initial := map[int]int{}
			if it.sc.pre {
				flowh.Decode(e.v9, e.keys[0].addr, e.tmsg(0, 0), cc)
				initial[0] = 0
			}
			var wg sync.WaitGroup // a REAL WaitGroup: gives the race detector the edge thread -> harness
			var ids []int
			for ti, p := range it.sc.progs {
				ti, p := ti, p
				wg.Add(1)
				ids = append(ids, sched.GoNamed(p.name, func() {
					defer wg.Done()
					p.run(e, cc, ti, func(r opRec) { recs[ti] = append(recs[ti], r) })
				}))
			}
			for _, id := range ids {
				sched.Join(id)
			}
			wg.Wait()
			var all []opRec
			for ti := range it.sc.progs {
				all = append(all, recs[ti]...)
			}
			var o []string
			for _, r := range all {
				o = append(o, fmt.Sprintf("t%d:%s:k%d:v%d:%s", r.thread, r.kind, r.key, r.ver, strings.SplitN(r.note, " ", 2)[0]))
				if r.kind == "read" && r.ver == -2 {
					sched.Fail("cache:lookup-torn-or-foreign-template", fmt.Sprintf("thread %d %s returned a template that is not one announced for this key", r.thread, r.note))
				}
				if r.kind == "dump" && strings.HasPrefix(r.note, "INCOMPLETE") {
					sched.Fail("cache:dump-holds-incomplete-template", r.note)
				}
				if r.kind == "dump" && strings.HasPrefix(r.note, "dump error") {
					sched.Fail("cache:dump-error", r.note)
				}
			}
			setObs(strings.Join(o, " "))
			if os.Getenv("VERIF_DEBUG") != "" {
				for _, r := range all {
					fmt.Fprintf(os.Stderr, "op t%d %s k%d v%d [%d,%d] %s\n", r.thread, r.kind, r.key, r.ver, r.start, r.end, r.note)
				}
				ok, msg := linearizable(all, initial)
				fmt.Fprintln(os.Stderr, "linearizable:", ok, msg)
			}
			if ok, msg := linearizable(all, initial); !ok {
				sched.Fail("cache:not-linearizable", msg)
			}
			// when everybody is done: a dump taken NOW must load back as exactly what a lookup sees now
			// (a dump that re-uses what an earlier, overlapped dump computed would not)
			finalFile := filepath.Join(tmpDirGet(), "final.json")
			var derr error
			if e.v9 {
				derr = cc.N.Dump(finalFile)
			} else {
				derr = cc.I.Dump(finalFile)
			}
			if derr != nil {
				sched.Fail("cache:dump-error", "final dump: "+derr.Error())
			}
			specsOf := func(c2 *flowh.Caches, k key) int {
				var ids, lens []uint16
				if e.v9 {
					tr, ok := netflow9.VerifRetrieve(c2.N, k.id, append(net.IP{}, k.addr...))
					if !ok {
						return -1
					}
					for _, f := range tr.FieldSpecifiers {
						ids, lens = append(ids, f.ElementID), append(lens, f.Length)
					}
				} else {
					tr, ok := ipfix.VerifRetrieve(c2.I, k.id, append(net.IP{}, k.addr...))
					if !ok {
						return -1
					}
					for _, f := range tr.FieldSpecifiers {
						ids, lens = append(ids, f.ElementID), append(lens, f.Length)
					}
				}
				return e.classifySpecs(ids, lens)
			}
			var loaded *flowh.Caches
			if e.v9 {
				loaded = &flowh.Caches{N: netflow9.GetCache(finalFile)}
			} else {
				loaded = &flowh.Caches{I: ipfix.GetCache(finalFile)}
			}
			for ki, k := range e.keys {
				if k.addr == nil {
					continue
				}
				if a, b := specsOf(cc, k), specsOf(loaded, k); a != b {
					sched.Fail("cache:final-dump-differs-from-cache", fmt.Sprintf("after all threads have finished, key %d: a lookup sees version %d, a dump taken now loads back as version %d", ki, a, b))
				}
			}
		}
		outcomes := map[string]int{}
		reported := map[string]bool{}
		nexec := 0
		onExec := func(r *sched.Result) {
			c.Transitions(uint64(r.Steps))
			c.States(1)
			nexec++
			if nexec%128 == 0 {
				c.Heartbeat()
			}
			obs := getObs()
			outcomes[obs]++
			if rep := newRaceReport(); rep != "" {
				sig := raceSig(rep)
				if !reported[sig] {
					reported[sig] = true
					d := desc().(map[string]interface{})
					d["schedule"] = fmt.Sprint(r.Choices)
					if len(rep) > 3500 {
						rep = rep[:3500]
					}
					d["race_report"] = rep
					c.Violation(proto+":"+sig, "data race reported in an explored schedule", d)
				}
			}
			if r.FailSig != "" && !reported[r.FailSig] {
				reported[r.FailSig] = true
				d := desc().(map[string]interface{})
				d["schedule"] = fmt.Sprint(r.Choices)
				d["observed"] = obs
				c.Violation(proto+":"+r.FailSig, r.FailMsg, d)
			}
		}
		// determinism gate: the first schedules replayed from their recorded choices must observe the same
		var first [][]int
		var firstObs []string
		var gateReps []string
		var gateScheds [][]int
		sched.Explore(sched.Config{Bound: bound(tier), MaxExec: 12, OnExec: func(r *sched.Result) {
			first = append(first, r.Choices)
			firstObs = append(firstObs, getObs()+"|"+r.FailSig)
			if rep := newRaceReport(); rep != "" { // the detector reports a racing pair once per process: keep it
				gateReps = append(gateReps, rep)
				gateScheds = append(gateScheds, r.Choices)
			}
		}}, body)
		for i, ch := range first {
			sched.Explore(sched.Config{Bound: 0, Prefix: ch, MaxExec: 1, OnExec: func(r *sched.Result) {
				newRaceReport()
				if getObs()+"|"+r.FailSig != firstObs[i] {
					fmt.Fprintf(os.Stderr, "determinism gate failed: schedule %v observed %q then %q\n", ch, firstObs[i], getObs()+"|"+r.FailSig)
					os.Exit(3)
				}
			}}, body)
		}
		if rep := newRaceReport(); rep != "" {
			gateReps = append(gateReps, rep)
			gateScheds = append(gateScheds, nil)
		}
		for gi, rep := range gateReps {
			for _, one := range strings.Split(rep, "==================\nWARNING: DATA RACE") {
				if !strings.Contains(one, "by goroutine") {
					continue
				}
				sig := raceSig("WARNING: DATA RACE" + one)
				if !reported[sig] {
					reported[sig] = true
					d := desc().(map[string]interface{})
					d["schedule"] = fmt.Sprint(gateScheds[gi])
					if len(one) > 3500 {
						one = one[:3500]
					}
					d["race_report"] = "WARNING: DATA RACE" + one
					c.Violation(proto+":"+sig, "data race reported in an explored schedule", d)
				}
			}
		}
		st := sched.Explore(sched.Config{Bound: bound(tier), OnExec: onExec}, body)
		c.Count("executions", uint64(st.Executions))
		c.Count("distinct_observation_logs", uint64(len(outcomes)))
		c.Depth(uint64(st.MaxDepth))
		if !st.Complete {
			c.Incomplete()
		}
		for o := range outcomes {
			c.Nontrivial(mck.HashStr(proto, it.sc.name, o))
		}
		c.Outcome(fmt.Sprintf("%s:%s outcomes=%d", proto, it.sc.name, len(outcomes)))
		c.Sample(func() interface{} {
			d := desc().(map[string]interface{})
			d["executions"] = st.Executions
			d["distinct_observation_logs"] = len(outcomes)
			for o := range outcomes {
				d["one_observation_log"] = o
				break
			}
			return d
		})
	}}
}

// agingSpace (sequential, no scheduler): what the cache holds must not depend on how much TIME has passed
// since it was announced - seconds, the usual timeout values, days, more than a year - in memory, across a
// re-announcement, across dump + load (a restart after a long downtime) and for a peer lookup. The cache code
// reads the clock through the time seam; AdvanceReal moves it.
func agingSpace(tier string) mck.Space {
	flowh.InstallExtra()
	ages := []int64{0, 1, 59, 60, 61, 299, 300, 301, 599, 600, 601, 1799, 1800, 1801, 3599, 3600, 3601, 7200, 86399, 86400, 86401, 7 * 86400, 30 * 86400, 400 * 86400}
	orders := []string{"announce, wait, data", "announce v0, wait, announce, wait, data", "announce, dump, wait, load, data", "announce, wait, peer lookup", "announce, wait, dump, load, data",
		// house-keeping that runs when OTHER templates arrive (a sweep on insert) must not take this one away
		"announce, wait, 96 other exporters announce, data",
		// the clock at the restart is BEHIND the clock at the dump (boot before time synchronisation, a step backwards,
		// a resumed virtual machine): what the file says was stored "in the future" is still what was stored
		"announce, dump, the clock steps back, load, data"}
	vers := versions()
	dims := mck.Radix{2, uint64(len(ages)), uint64(len(orders)), uint64(len(vers))}
	return mck.FuncSpace{N: dims.Size(), F: func(idx uint64, c *mck.Ctx) {
		d := dims.Digits(idx)
		e := &env{v9: d[0] == 1, vers: vers, keys: []key{{net.ParseIP("192.0.2.10"), 256}}}
		age, order, v := time.Duration(ages[d[1]])*time.Second, orders[d[2]], d[3]
		if e.v9 && (v == 5 || d[2] == 3) {
			c.Skip() // variable length and the peer lookup are IPFIX only
			return
		}
		proto := "ipfix"
		if e.v9 {
			proto = "v9"
		}
		desc := func() interface{} {
			return map[string]interface{}{"protocol": proto, "order": order, "wait_seconds": ages[d[1]], "template_version": v}
		}
		c.SetCase(desc)
		cc := flowh.NewCaches()
		file := filepath.Join(tmpDirGet(), fmt.Sprintf("aging-%d.json", idx))
		defer os.Remove(file)
		dump := func() {
			if e.v9 {
				cc.N.Dump(file)
			} else {
				cc.I.Dump(file)
			}
		}
		load := func() {
			if e.v9 {
				cc = &flowh.Caches{N: netflow9.GetCache(file)}
			} else {
				cc = &flowh.Caches{I: ipfix.GetCache(file)}
			}
		}
		ann := func(ver int) { flowh.Decode(e.v9, e.keys[0].addr, e.tmsg(0, ver), cc) }
		got := -3
		data := func() {
			r := flowh.Decode(e.v9, e.keys[0].addr, e.dmsg(0), cc)
			got = e.classify(r.Records, r.Err != nil && strings.Contains(r.Err.Error(), "unknown"))
		}
		switch d[2] {
		case 0:
			ann(v)
			venv.AdvanceReal(age)
			data()
		case 1:
			ann(0)
			venv.AdvanceReal(age)
			ann(v)
			venv.AdvanceReal(age)
			data()
		case 2:
			ann(v)
			dump()
			venv.AdvanceReal(age)
			load()
			data()
		case 3:
			ann(v)
			venv.AdvanceReal(age)
			var resp ipfix.TemplateRecord
			if err := ipfix.NewRPC(cc.I).Get(ipfix.RPCRequest{ID: e.keys[0].id, IP: append(net.IP{}, e.keys[0].addr...)}, &resp); err != nil {
				got = -1
			} else {
				var ids, lens []uint16
				for _, f := range resp.FieldSpecifiers {
					ids, lens = append(ids, f.ElementID), append(lens, f.Length)
				}
				got = e.classifySpecs(ids, lens)
			}
		case 4:
			ann(v)
			venv.AdvanceReal(age)
			dump()
			load()
			data()
		case 6:
			ann(v)
			dump()
			venv.AdvanceReal(-age)
			load()
			data()
			venv.AdvanceReal(age)
		case 5:
			ann(v)
			venv.AdvanceReal(age)
			for i := 0; i < 96; i++ { // enough distinct exporters to reach every shard
				o := net.IPv4(198, 51, 100, byte(i+1))
				t := ref.Template{ID: e.keys[0].id, Fields: e.vers[(v+1)%5]}
				flowh.Decode(e.v9, o, (&ref.Msg{V9: e.v9, Hdr: [5]uint32{1, 1, 1, 1, 1}, Sets: []ref.Set{{Kind: ref.SetTemplates, Templates: []ref.Template{t}}}}).Encode(nil), cc)
			}
			data()
		}
		c.Nontrivial(mck.HashStr(proto, order, fmt.Sprint(ages[d[1]], v)))
		c.Outcome(fmt.Sprintf("%s: version read = announced: %v", order, got == v))
		if got != v {
			what := map[int]string{-1: "no template (unknown)", -2: "a template that was never announced for this key", -3: "nothing"}[got]
			if got >= 0 {
				what = fmt.Sprintf("version %d", got)
			}
			c.Violation(proto+":cache:aging:"+strings.ReplaceAll(strings.Split(order, ",")[len(strings.Split(order, ","))-1], " ", ""), fmt.Sprintf("%s with %d s between the steps: the lookup observed %s, announced was version %d", order, ages[d[1]], what, v), desc())
		}
		if idx%101 == 0 {
			c.Sample(desc)
		}
	}}
}

func main() {
	mck.Main(map[string]func(string) mck.Space{"cache.sched": schedSpace, "cache.aging": agingSpace})
}

// c20: built-in and shipped IPFIX information models agree (finite, exhaustive).
package main

import (
	"encoding/json"
	"fmt"
	"os"
	"path/filepath"
	"regexp"
	"sort"
	"strconv"

	"github.com/EdgeCast/vflow/ipfix"
	"github.com/EdgeCast/vflow/zzverif/flowh"
	"github.com/EdgeCast/vflow/zzverif/mck"
	"github.com/EdgeCast/vflow/zzverif/ref"
	"gopkg.in/yaml.v2"
)

type key struct {
	pen uint32
	id  uint16
}

type entry struct {
	name, typ string
}

var (
	repo     = envOr("VERIF_REPO", "/repo")
	verif    = envOr("VERIF_DIR", "/verif")
	builtin  = map[ipfix.ElementKey]ipfix.InfoElementEntry{}
	loaded   = map[ipfix.ElementKey]ipfix.InfoElementEntry{}
	absent   = map[ipfix.ElementKey]ipfix.InfoElementEntry{}
	srcNames = map[key]entry{} // from the Go source text
	yamlN    = map[key]entry{} // from the shipped file
	snap     = map[key]entry{}
	keys     []key
	loadErr  error
	unusable []string // what an unusable ipfix.elements did to the table
	presented []string // the file reached through links loads differently
)

func envOr(k, d string) string {
	if v := os.Getenv(k); v != "" {
		return v
	}
	return d
}

func setup() {
	for k, v := range ipfix.InfoModel {
		builtin[k] = v
	}
	// path 1: file absent -> table unchanged
	empty, _ := os.MkdirTemp("", "c20")
	defer os.RemoveAll(empty)
	if err := ipfix.LoadExtElements(empty); err != nil {
		loadErr = err
	}
	for k, v := range ipfix.InfoModel {
		absent[k] = v
	}
	// path 1b: the file is THERE but cannot be used (a directory in its place - a bind mount of a missing file -,
	// something that is not YAML, YAML of another shape, the shipped file cut short into invalid YAML): the load
	// fails and the table must still be the built-in one
	shipped, _ := os.ReadFile(filepath.Join(repo, "scripts", "ipfix.elements"))
	cut := append(append([]byte{}, shipped[:len(shipped)/3]...), []byte("\n\t:::\n  - [")...)
	for _, v := range []struct {
		name string
		make func(dir string)
	}{
		{"a directory in its place", func(dir string) { os.Mkdir(filepath.Join(dir, "ipfix.elements"), 0755) }},
		{"not YAML", func(dir string) { os.WriteFile(filepath.Join(dir, "ipfix.elements"), []byte(":\n\t- [\x00"), 0644) }},
		{"YAML of another shape", func(dir string) {
			os.WriteFile(filepath.Join(dir, "ipfix.elements"), []byte("just: [a, list]\n"), 0644)
		}},
		{"the shipped file cut short into invalid YAML", func(dir string) { os.WriteFile(filepath.Join(dir, "ipfix.elements"), cut, 0644) }},
	} {
		dir, _ := os.MkdirTemp("", "c20u")
		v.make(dir)
		err := ipfix.LoadExtElements(dir)
		os.RemoveAll(dir)
		diff := 0
		for k, b := range builtin {
			if ipfix.InfoModel[k] != b {
				diff++
			}
		}
		if diff > 0 || len(ipfix.InfoModel) != len(builtin) {
			unusable = append(unusable, fmt.Sprintf("%s (load error: %v): %d of %d built-in entries changed or gone, %d entries in the table", v.name, err, diff, len(builtin), len(ipfix.InfoModel)))
			ipfix.InfoModel = map[ipfix.ElementKey]ipfix.InfoElementEntry{}
			for k, b := range builtin {
				ipfix.InfoModel[k] = b
			}
		}
	}
	// path 2: shipped file
	if err := ipfix.LoadExtElements(filepath.Join(repo, "scripts")); err != nil {
		loadErr = err
	}
	for k, v := range ipfix.InfoModel {
		loaded[k] = v
	}
	// path 2b: what a load takes from the file must not depend on how the file is presented: a plain copy, a
	// symbolic link to it, the layout of a Kubernetes ConfigMap volume (ipfix.elements -> ..data/ipfix.elements,
	// ..data -> a directory). Loaded into an EMPTY table so that what was loaded can be told from what was there.
	fromEmpty := func(dir string) (map[ipfix.ElementKey]ipfix.InfoElementEntry, error) {
		keep := ipfix.InfoModel
		ipfix.InfoModel = map[ipfix.ElementKey]ipfix.InfoElementEntry{}
		err := ipfix.LoadExtElements(dir)
		got := ipfix.InfoModel
		ipfix.InfoModel = keep
		return got, err
	}
	var plain map[ipfix.ElementKey]ipfix.InfoElementEntry
	for _, v := range []struct {
		name string
		make func(dir string) error
	}{
		{"a plain copy of the shipped file", func(dir string) error { return os.WriteFile(filepath.Join(dir, "ipfix.elements"), shipped, 0644) }},
		{"a symbolic link to the file", func(dir string) error {
			os.WriteFile(filepath.Join(dir, "the-real-file"), shipped, 0644)
			return os.Symlink("the-real-file", filepath.Join(dir, "ipfix.elements"))
		}},
		{"a ConfigMap volume (link -> ..data/ipfix.elements, ..data -> directory)", func(dir string) error {
			os.Mkdir(filepath.Join(dir, "..2026_09_28"), 0755)
			os.WriteFile(filepath.Join(dir, "..2026_09_28", "ipfix.elements"), shipped, 0644)
			if err := os.Symlink("..2026_09_28", filepath.Join(dir, "..data")); err != nil {
				return err
			}
			return os.Symlink("..data/ipfix.elements", filepath.Join(dir, "ipfix.elements"))
		}},
	} {
		dir, _ := os.MkdirTemp("", "c20p")
		if v.make(dir) != nil {
			os.RemoveAll(dir)
			continue // no symbolic links here
		}
		got, err := fromEmpty(dir)
		os.RemoveAll(dir)
		if plain == nil {
			plain = got
			if len(got) == 0 {
				unusable = append(unusable, fmt.Sprintf("%s loaded nothing into an empty table (error: %v)", v.name, err))
			}
			continue
		}
		diff := 0
		for k, e := range plain {
			if got[k] != e {
				diff++
			}
		}
		if diff > 0 || len(got) != len(plain) || err != nil {
			presented = append(presented, fmt.Sprintf("%s (load error: %v): %d of the %d entries a plain copy gives are missing or different, %d entries loaded", v.name, err, diff, len(plain), len(got)))
		}
	}
	src, err := os.ReadFile(filepath.Join(repo, "ipfix", "rfc5102_model.go"))
	if err != nil {
		panic(err)
	}
	re := regexp.MustCompile(`ElementKey\{\s*(\d+),\s*(\d+)\}:\s*InfoElementEntry\{FieldID:\s*(\d+),\s*Name:\s*"([^"]*)",\s*Type:\s*FieldTypes\["([^"]*)"\]\}`)
	for _, m := range re.FindAllStringSubmatch(string(src), -1) {
		p, _ := strconv.Atoi(m[1])
		i, _ := strconv.Atoi(m[2])
		srcNames[key{uint32(p), uint16(i)}] = entry{m[4], m[5]}
	}
	yb, err := os.ReadFile(filepath.Join(repo, "scripts", "ipfix.elements"))
	if err != nil {
		panic(err)
	}
	var y map[uint32]map[uint16][]string
	if err := yaml.Unmarshal(yb, &y); err != nil {
		panic(err)
	}
	for p, es := range y {
		for i, pr := range es {
			e := entry{}
			if len(pr) > 0 {
				e.name = pr[0]
			}
			if len(pr) > 1 {
				e.typ = pr[1]
			}
			yamlN[key{p, i}] = e
		}
	}
	sb, err := os.ReadFile(filepath.Join(verif, "models", "ipfix_registry.json"))
	if err != nil {
		panic(err)
	}
	var s struct {
		Elements []struct {
			Pen  uint32
			ID   uint16
			Name string
			Type string
		}
	}
	if err := json.Unmarshal(sb, &s); err != nil {
		panic(err)
	}
	for _, e := range s.Elements {
		snap[key{e.Pen, e.ID}] = entry{e.Name, e.Type}
	}
	seen := map[key]bool{}
	for k := range builtin {
		seen[key{k.EnterpriseNo, k.ElementID}] = true
	}
	for k := range loaded {
		seen[key{k.EnterpriseNo, k.ElementID}] = true
	}
	for k := range snap {
		seen[k] = true
	}
	for k := range seen {
		keys = append(keys, k)
	}
	sort.Slice(keys, func(i, j int) bool {
		if keys[i].pen != keys[j].pen {
			return keys[i].pen < keys[j].pen
		}
		return keys[i].id < keys[j].id
	})
}

func entriesSpace(tier string) mck.Space {
	setup()
	return mck.FuncSpace{N: uint64(len(keys)), F: func(idx uint64, c *mck.Ctx) {
		k := keys[idx]
		ek := ipfix.ElementKey{EnterpriseNo: k.pen, ElementID: k.id}
		if loadErr != nil && idx == 0 {
			c.Violation("model:load-error", loadErr.Error(), nil)
		}
		if idx == 0 {
			for _, u := range unusable {
				c.Violation("model:unusable-file-changes-table", "ipfix.elements present but unusable - "+u, nil)
			}
			for _, u := range presented {
				c.Violation("model:file-behind-symlink", "ipfix.elements reached through "+u, nil)
			}
		}
		b, inB := builtin[ek]
		l, inL := loaded[ek]
		a, inA := absent[ek]
		s, inS := snap[k]
		det := map[string]interface{}{"enterprise": k.pen, "id": k.id, "builtin": fmt.Sprintf("%+v", b), "file": fmt.Sprintf("%+v", l), "snapshot": fmt.Sprintf("%+v", s), "source_type": srcNames[k].typ, "file_type": yamlN[k].typ}
		fail := func(cls, msg string) {
			c.Violation("model:"+cls, fmt.Sprintf("element %d/%d: %s", k.pen, k.id, msg), det)
		}
		if !inB || !inL {
			fail("missing", fmt.Sprintf("in built-in table: %v, in shipped file: %v", inB, inL))
			return
		}
		if !inA || a != b {
			fail("absent-file-changes-table", "LoadExtElements with no file altered the entry")
		}
		if !inS {
			fail("not-in-snapshot", "element unknown to the registry snapshot")
			return
		}
		if b.Name != l.Name {
			fail("name", fmt.Sprintf("built-in %q, file %q", b.Name, l.Name))
		}
		if b.Type != l.Type {
			fail("type", fmt.Sprintf("built-in %v, file %v", b.Type, l.Type))
		}
		if b.FieldID != k.id || l.FieldID != k.id {
			fail("fieldid", fmt.Sprintf("FieldID built-in %d file %d under key %d", b.FieldID, l.FieldID, k.id))
		}
		if b.Name != s.name {
			fail("snapshot-name", fmt.Sprintf("built-in %q, snapshot %q", b.Name, s.name))
		}
		for which, tn := range map[string]string{"source": srcNames[k].typ, "file": yamlN[k].typ} {
			ft, ok := ipfix.FieldTypes[tn]
			if !ok {
				fail("unrecognised-type-name", fmt.Sprintf("%s type name %q is not a recognised abstract data type", which, tn))
				continue
			}
			if tn != s.typ {
				fail("snapshot-type", fmt.Sprintf("%s type %q, snapshot %q", which, tn, s.typ))
			}
			if which == "source" && ft != b.Type || which == "file" && ft != l.Type {
				fail("type-name-vs-value", fmt.Sprintf("%s type name %q does not give the stored type", which, tn))
			}
		}
		c.Nontrivial(mck.HashStr(fmt.Sprint(k), b.Name))
		c.Outcome(fmt.Sprint(b.Type))
		c.States(1)
		c.Transitions(2)
		if idx%97 == 0 {
			c.Sample(func() interface{} { return det })
		}
	}}
}

// decodeSpace: every element x encoding class x value pattern decodes identically under both tables.
func decodeSpace(tier string) mck.Space {
	setup()
	dims := mck.Radix{uint64(len(keys)), 3, 3}
	return mck.FuncSpace{N: dims.Size(), F: func(idx uint64, c *mck.Ctx) {
		d := dims.Digits(idx)
		k := keys[d[0]]
		ek := ipfix.ElementKey{EnterpriseNo: k.pen, ElementID: k.id}
		b, ok := builtin[ek]
		if !ok {
			c.Skip()
			return
		}
		at := flowh.AType(b.Type)
		nat := at.NaturalLen()
		f := ref.Field{ID: k.id, PEN: k.pen, Type: at}
		kind := flowh.Kind{F: f}
		switch d[1] {
		case 0:
			kind.F.Len = uint16(nat)
			if nat == 0 {
				kind.F.Len = 5
			}
		case 1:
			kind.F.Len = 1
		case 2:
			if nat != 0 {
				c.Skip()
				return
			}
			kind.F.Len, kind.VarLen = 65535, 6 // variable length: list/string/octet types
		}
		t := ref.Template{ID: 500, Fields: []ref.Field{kind.F}}
		tpls := map[uint16]ref.Template{500: t}
		m := &ref.Msg{Sets: []ref.Set{{Kind: ref.SetTemplates, Templates: []ref.Template{t}}, {Kind: ref.SetData, TemplateID: 500, Records: []ref.Record{{flowh.FillValue(kind, d[2], 0, 0)}, {flowh.FillValue(kind, d[2], 1, 0)}}}}}
		wire := m.Encode(tpls)
		run := func(tbl map[ipfix.ElementKey]ipfix.InfoElementEntry) string {
			ipfix.InfoModel = tbl
			r := flowh.Decode(false, flowh.AddrV4mapped, append([]byte{}, wire...), flowh.NewCaches())
			return fmt.Sprintf("nil=%v err=%v %v", r.Nil, r.Err, flowh.DescribeRecords(r.Records))
		}
		x, y := run(builtin), run(loaded)
		c.Nontrivial(mck.Hash64(wire))
		if x != y {
			c.Violation("model:decode-differs", fmt.Sprintf("element %d/%d len %d: built-in table -> %s ; shipped file -> %s", k.pen, k.id, kind.F.Len, x, y), nil)
		}
		want := m.Expected(tpls)
		if d[1] != 2 || at == ref.TString || at == ref.TOctetArray {
			ipfix.InfoModel = builtin
			r := flowh.Decode(false, flowh.AddrV4mapped, append([]byte{}, wire...), flowh.NewCaches())
			if cls, msg := flowh.CompareRecords(r.Records, want); cls != "" {
				c.Violation("model:decode-vs-snapshot-type:"+cls, fmt.Sprintf("element %d/%d (%s) len %d: %s", k.pen, k.id, snap[k].typ, kind.F.Len, msg), nil)
			}
		}
		c.Outcome(ref.ATypeNames[at])
	}}
}

func main() {
	mck.Main(map[string]func(string) mck.Space{"model.entries": entriesSpace, "model.decode": decodeSpace})
}

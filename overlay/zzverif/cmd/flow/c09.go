package main

import (
	"encoding/hex"
	"fmt"

	"github.com/EdgeCast/vflow/zzverif/flowh"
	"github.com/EdgeCast/vflow/zzverif/mck"
	"github.com/EdgeCast/vflow/zzverif/ref"
)

// C09: undecodable sets never corrupt neighbours; truncation never fabricates.

func init() {
	for _, v9 := range []bool{false, true} {
		v9 := v9
		p := "ipfix"
		if v9 {
			p = "v9"
		}
		spaces[p+".perturb"] = func(t string) mck.Space { return perturbSpace(v9, t) }
		spaces[p+".many"] = func(t string) mck.Space { return manySpace(v9, t) }
	}
}

type c09env struct {
	v9    bool
	tpls  map[uint16]ref.Template
	bases [][]ref.Set // data sets only
}

func mkC09(v9 bool) *c09env {
	flowh.InstallExtra()
	by := flowh.ElemByType()
	f := func(t ref.AType, l uint16) ref.Field {
		if l == 0 {
			l = uint16(t.NaturalLen())
		}
		return ref.Field{ID: by[t], Len: l, Type: t}
	}
	e := &c09env{v9: v9, tpls: map[uint16]ref.Template{}}
	A := ref.Template{ID: 300, Fields: []ref.Field{f(ref.TU32, 0), f(ref.TU16, 0)}}
	B := ref.Template{ID: 301, Fields: []ref.Field{f(ref.TString, 65535), f(ref.TU8, 0)}}
	if v9 {
		B = ref.Template{ID: 301, Fields: []ref.Field{f(ref.TString, 3), f(ref.TU8, 0)}}
	}
	C := ref.Template{ID: 302, Fields: []ref.Field{f(ref.TOctetArray, 12)}} // content looks like a set of template A
	D := ref.Template{ID: 303, Options: true, Scope: []ref.Field{f(ref.TU32, 0)}, Fields: []ref.Field{f(ref.TIPv4, 0), f(ref.TU64, 0)}}
	// templates that are known but not decodable: element absent from the model
	U1 := ref.Template{ID: 310, Fields: []ref.Field{{ID: 9999, Len: 4, Type: ref.TUnknown}, f(ref.TU16, 0)}}
	U2 := ref.Template{ID: 311, Options: true, Scope: []ref.Field{{ID: 9998, Len: 2, Type: ref.TUnknown}}, Fields: []ref.Field{f(ref.TU32, 0)}}
	// ... where the absent element is NOT the first field: the decoder has already consumed octets of the record
	// when it finds out (what it then skips must still be "the rest of the set by its declared length")
	U3 := ref.Template{ID: 312, Fields: []ref.Field{f(ref.TU32, 0), {ID: 9997, Len: 2, Type: ref.TUnknown}, f(ref.TU16, 0)}}
	U4 := ref.Template{ID: 313, Options: true, Scope: []ref.Field{f(ref.TU32, 0)}, Fields: []ref.Field{f(ref.TU8, 0), {ID: 9996, Len: 4, Type: ref.TUnknown}}}
	for _, t := range []ref.Template{A, B, C, D, U1, U2, U3, U4} {
		e.tpls[t.ID] = t
	}
	val := func(b ...byte) ref.Value { return ref.Value{Raw: b} }
	recA := func(i byte) ref.Record { return ref.Record{val(0xa0+i, 1, 2, 3), val(0xb0+i, 9)} }
	recB := func(i byte) ref.Record { return ref.Record{val('x', 'y', 'a'+i), val(0xc0 + i)} }
	looksLikeSet := ref.Record{val(0x01, 0x2c, 0x00, 0x0a, 0xde, 0xad, 0xbe, 0xef, 0x12, 0x34, 0x00, 0x00)} // "set 300, length 10, one record"
	recD := func(i byte) ref.Record {
		return ref.Record{val(0, 0, 0, i), val(10, 0, 0, i), val(1, 2, 3, 4, 5, 6, 7, 0xd0+i)}
	}
	ds := func(id uint16, pad int, rs ...ref.Record) ref.Set {
		return ref.Set{Kind: ref.SetData, TemplateID: id, Records: rs, Pad: pad}
	}
	e.bases = [][]ref.Set{
		{ds(300, 0, recA(0), recA(1)), ds(301, 0, recB(0))},
		{ds(301, 0, recB(0), recB(1)), ds(300, 2, recA(2)), ds(301, 0, recB(2))},
		{ds(300, 0, recA(3)), ds(300, 0, recA(4), recA(5))},
		{ds(302, 0, looksLikeSet, looksLikeSet), ds(300, 0, recA(6))},
		{ds(303, 0, recD(1), recD(2)), ds(302, 0, looksLikeSet)},
	}
	return e
}

type perturbation struct {
	kind  string
	set   ref.Set
	early bool // the set is a data set of a template that the SAME message defines only further on
}

func (e *c09env) perturbations(tier string) []perturbation {
	var ps []perturbation
	bodies := [][]byte{}
	for l := 0; l <= 9; l++ {
		b := make([]byte, l)
		for i := range b {
			b[i] = byte(0x71 + i)
		}
		bodies = append(bodies, b)
	}
	// a body that is itself a valid set header + record of template 300
	bodies = append(bodies, []byte{0x01, 0x2c, 0x00, 0x0a, 1, 2, 3, 4, 5, 6})
	// ... followed by further octets of the undecodable set (a cut inside those leaves the inner "set" whole)
	bodies = append(bodies, []byte{0x01, 0x2c, 0x00, 0x0a, 1, 2, 3, 4, 5, 6, 0xee, 0xee, 0xee, 0xee, 0xee})
	// ... and two such inner sets
	bodies = append(bodies, []byte{0x01, 0x2c, 0x00, 0x0a, 1, 2, 3, 4, 5, 6, 0x01, 0x2c, 0x00, 0x0a, 9, 9, 9, 9, 9, 9, 0xdd})
	lo := 4
	if e.v9 {
		lo = 2
	}
	for id := lo; id <= 255; id++ {
		for bi, b := range bodies {
			if tier != "thorough" && id > lo+3 && id < 253 && bi != 0 && bi != 5 && bi < 10 {
				continue // quick: all ids with 3 bodies, 7 boundary ids with all bodies
			}
			ps = append(ps, perturbation{fmt.Sprintf("reserved-id-%d/body%d", id, bi), ref.Set{Kind: ref.SetRaw, RawID: uint16(id), RawBody: b}, false})
		}
	}
	for _, id := range []uint16{256, 999, 65535} {
		for bi, b := range bodies {
			ps = append(ps, perturbation{fmt.Sprintf("unknown-template-%d/body%d", id, bi), ref.Set{Kind: ref.SetRaw, RawID: id, RawBody: b}, false})
		}
	}
	// data for templates 300 / 303 placed BEFORE the template sets of the message (templates in-message only):
	// undecodable where it stands, and it must not stop the later data sets of the same id from decoding
	for _, id := range []uint16{300, 303} {
		for bi, b := range bodies {
			if bi == 6 || bi == 10 || bi == 12 {
				ps = append(ps, perturbation{fmt.Sprintf("early-use-of-template-%d/body%d", id, bi), ref.Set{Kind: ref.SetRaw, RawID: id, RawBody: b}, true})
			}
		}
	}
	for _, id := range []uint16{310, 311, 312, 313} {
		for bi, b := range bodies {
			ps = append(ps, perturbation{fmt.Sprintf("absent-element-tpl-%d/body%d", id, bi), ref.Set{Kind: ref.SetRaw, RawID: id, RawBody: b}, false})
		}
	}
	return ps
}

func prefixOf(a, b [][]ref.ExpField) bool {
	if len(a) > len(b) {
		return false
	}
	cls, _ := flowh.CompareRecords(a, b[:len(a)])
	return cls == ""
}

func perturbSpace(v9 bool, tier string) mck.Space {
	e := mkC09(v9)
	ps := e.perturbations(tier)
	// dims: base, position (0..3, skipped if > #sets), perturbation (0 = none), templates in-message
	dims := mck.Radix{uint64(len(e.bases)), 4, uint64(len(ps) + 1), 2}
	name := "ipfix"
	if v9 {
		name = "v9"
	}
	var all []ref.Template
	for _, id := range []uint16{300, 301, 302, 303, 310, 311, 312, 313} {
		all = append(all, e.tpls[id])
	}
	var plain, opts []ref.Template
	for _, t := range all {
		if t.Options {
			opts = append(opts, t)
		} else {
			plain = append(plain, t)
		}
	}
	tsets := []ref.Set{{Kind: ref.SetTemplates, Templates: plain}}
	for _, o := range opts { // one options template per set (v9 padding rule)
		s := ref.Set{Kind: ref.SetTemplates, Templates: []ref.Template{o}}
		if v9 {
			s.Pad = (4 - (6+4*len(o.All()))%4) % 4
		}
		tsets = append(tsets, s)
	}
	return mck.FuncSpace{N: dims.Size(), F: func(idx uint64, c *mck.Ctx) {
		d := dims.Digits(idx)
		base := e.bases[d[0]]
		pos := d[1]
		if pos > len(base) || (d[2] == 0 && pos != 0) {
			c.Skip()
			return
		}
		sets := append([]ref.Set{}, base...)
		desc := "unperturbed"
		var early *ref.Set
		if d[2] > 0 && ps[d[2]-1].early {
			if d[3] != 1 || pos != 0 {
				c.Skip()
				return
			}
			e0 := ps[d[2]-1].set
			early = &e0
			desc = ps[d[2]-1].kind + " placed before the template sets"
		} else if d[2] > 0 {
			p := ps[d[2]-1]
			desc = fmt.Sprintf("%s inserted at set position %d", p.kind, pos)
			sets = append(append(append([]ref.Set{}, base[:pos]...), p.set), base[pos:]...)
		}
		caches := flowh.NewCaches()
		addr := flowh.AddrV6
		inMsg := d[3] == 1
		m := &ref.Msg{V9: v9, Hdr: hdrFor(v9, 3)}
		if inMsg {
			if early != nil {
				m.Sets = append(m.Sets, *early)
			}
			m.Sets = append(append(m.Sets, tsets...), sets...)
		} else {
			flowh.Decode(v9, addr, (&ref.Msg{V9: v9, Hdr: hdrFor(v9, 6), Sets: tsets}).Encode(e.tpls), caches)
			m.Sets = sets
		}
		wire := m.Encode(e.tpls)
		baseMsg := &ref.Msg{V9: v9, Sets: base}
		want := baseMsg.Expected(e.tpls)
		descF := func() interface{} {
			return map[string]interface{}{"desc": desc, "base": d[0], "templates_in_message": inMsg, "v9": v9, "wire": hex.EncodeToString(wire), "expected": flowh.DescribeRecords(want)}
		}
		c.SetCase(descF)
		full := flowh.Decode(v9, addr, append([]byte{}, wire...), caches)
		c.Nontrivial(mck.Hash64(wire, []byte{byte(d[3])}))
		pk := "none"
		if d[2] > 0 {
			pk = ps[d[2]-1].kind[:7]
		}
		if cls, msg := flowh.CompareRecords(full.Records, want); cls != "" {
			dd := descF().(map[string]interface{})
			dd["got"] = flowh.DescribeRecords(full.Records)
			dd["err"] = fmt.Sprint(full.Err)
			c.Violation(name+":perturb:"+pk+":"+cls, "records of the other sets changed: "+msg, dd)
			return
		}
		c.Outcome("perturb:" + pk)
		// truncation: every offset; caches are only read when templates were pre-announced;
		// with in-message templates each cut gets a fresh cache
		for cut := 0; cut < len(wire); cut++ {
			cc := caches
			if inMsg {
				cc = flowh.NewCaches()
			}
			t := flowh.Decode(v9, addr, append([]byte{}, wire[:cut]...), cc)
			c.Count("truncations", 1)
			if !prefixOf(t.Records, full.Records) {
				dd := descF().(map[string]interface{})
				dd["cut_at"] = cut
				dd["cut_got"] = flowh.DescribeRecords(t.Records)
				dd["full_got"] = flowh.DescribeRecords(full.Records)
				dd["cut_err"] = fmt.Sprint(t.Err)
				cls := "altered"
				if len(t.Records) > len(full.Records) {
					cls = "fabricated"
				}
				c.Violation(name+":truncate:"+cls, fmt.Sprintf("cut at %d/%d: %d records, not a prefix of the %d records of the complete datagram", cut, len(wire), len(t.Records), len(full.Records)), dd)
				break
			}
			if t.Nil {
				c.Outcome("cut:rejected")
			} else {
				c.Outcome(fmt.Sprintf("cut:prefix%d", len(t.Records)))
			}
		}
		c.Sample(descF)
	}}
}

// manySpace: the SAME undecodable set inserted N times in a row (N around small powers of two and other
// plausible limits) - whatever a decoder counts, caps or accumulates per message must not make it give
// up on the sets that follow. Also mixtures: the N inserted sets cycle through all four kinds.
func manySpace(v9 bool, tier string) mck.Space {
	e := mkC09(v9)
	body := []byte{0x71, 0x72, 0x73, 0x74, 0x75, 0x76, 0x77, 0x78}
	lo := uint16(4)
	if v9 {
		lo = 2
	}
	kinds := []perturbation{
		{"reserved-id", ref.Set{Kind: ref.SetRaw, RawID: lo, RawBody: body}, false},
		{"unknown-template", ref.Set{Kind: ref.SetRaw, RawID: 999, RawBody: body}, false},
		{"absent-element-tpl-310", ref.Set{Kind: ref.SetRaw, RawID: 310, RawBody: body}, false},
		{"absent-element-tpl-311", ref.Set{Kind: ref.SetRaw, RawID: 311, RawBody: body}, false},
		{"absent-element-tpl-312", ref.Set{Kind: ref.SetRaw, RawID: 312, RawBody: body}, false},
		{"absent-element-tpl-313", ref.Set{Kind: ref.SetRaw, RawID: 313, RawBody: body}, false},
		{"empty-body-unknown-template", ref.Set{Kind: ref.SetRaw, RawID: 65535, RawBody: nil}, false},
		{"mixture", ref.Set{}, false},
	}
	counts := []int{2, 3, 4, 7, 8, 9, 15, 16, 17, 18, 31, 32, 33, 63, 64, 65, 100, 127, 128, 129, 255, 256, 257, 1000}
	if tier == "thorough" {
		counts = nil
		for n := 2; n <= 300; n++ {
			counts = append(counts, n)
		}
		counts = append(counts, 1000, 4000)
	}
	var all []ref.Template
	for _, id := range []uint16{300, 301, 302, 303, 310, 311, 312, 313} {
		all = append(all, e.tpls[id])
	}
	var tsets []ref.Set
	var plain []ref.Template
	for _, t := range all {
		if t.Options {
			s := ref.Set{Kind: ref.SetTemplates, Templates: []ref.Template{t}}
			if v9 {
				s.Pad = (4 - (6+4*len(t.All()))%4) % 4
			}
			tsets = append(tsets, s)
		} else {
			plain = append(plain, t)
		}
	}
	tsets = append([]ref.Set{{Kind: ref.SetTemplates, Templates: plain}}, tsets...)
	dims := mck.Radix{uint64(len(e.bases)), 4, uint64(len(kinds)), uint64(len(counts))}
	name := "ipfix"
	if v9 {
		name = "v9"
	}
	return mck.FuncSpace{N: dims.Size(), F: func(idx uint64, c *mck.Ctx) {
		d := dims.Digits(idx)
		base := e.bases[d[0]]
		pos := d[1]
		if pos > len(base) {
			c.Skip()
			return
		}
		n := counts[d[3]]
		var ins []ref.Set
		for i := 0; i < n; i++ {
			k := kinds[d[2]]
			if k.kind == "mixture" {
				k = kinds[i%(len(kinds)-1)]
			}
			ins = append(ins, k.set)
		}
		sets := append(append(append([]ref.Set{}, base[:pos]...), ins...), base[pos:]...)
		caches := flowh.NewCaches()
		addr := flowh.AddrV6
		flowh.Decode(v9, addr, (&ref.Msg{V9: v9, Hdr: hdrFor(v9, 6), Sets: tsets}).Encode(e.tpls), caches)
		m := &ref.Msg{V9: v9, Hdr: hdrFor(v9, 3), Sets: sets}
		wire := m.Encode(e.tpls)
		if len(wire) > 65000 {
			c.Skip()
			return
		}
		want := (&ref.Msg{V9: v9, Sets: base}).Expected(e.tpls)
		descF := func() interface{} {
			return map[string]interface{}{"desc": fmt.Sprintf("%d x %s inserted at set position %d", n, kinds[d[2]].kind, pos), "base": d[0], "v9": v9, "wire_octets": len(wire), "expected": flowh.DescribeRecords(want)}
		}
		c.SetCase(descF)
		full := flowh.Decode(v9, addr, wire, caches)
		c.Nontrivial(mck.Hash64(wire))
		if cls, msg := flowh.CompareRecords(full.Records, want); cls != "" {
			dd := descF().(map[string]interface{})
			dd["got"] = flowh.DescribeRecords(full.Records)
			dd["err"] = fmt.Sprint(full.Err)
			c.Violation(name+":many:"+kinds[d[2]].kind+":"+cls, fmt.Sprintf("records of the other sets changed after %d undecodable sets: %s", n, msg), dd)
			return
		}
		c.Outcome("many:" + kinds[d[2]].kind)
		if idx%997 == 0 {
			c.Sample(descF)
		}
	}}
}

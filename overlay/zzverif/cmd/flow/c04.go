package main

import (
	"fmt"
	"hash/fnv"
	"net"
	"strings"

	"github.com/EdgeCast/vflow/ipfix"
	netflow9 "github.com/EdgeCast/vflow/netflow/v9"
	"github.com/EdgeCast/vflow/zzverif/flowh"
	"github.com/EdgeCast/vflow/zzverif/mck"
	"github.com/EdgeCast/vflow/zzverif/ref"
)

// C04: data is decoded only with the same exporter's latest template.
// Explicit-state BFS: state = reference map key -> definition; transition = one event applied
// to a fresh real cache after replaying the shortest history; after every transition every key
// is probed with a data message.

func init() {
	spaces["cache.bfs"] = func(t string) mck.Space { return cacheBFS(t) }
	spaces["cache.capacity"] = func(t string) mck.Space { return cacheCapacity(t) }
}

type ckey struct {
	name string
	addr net.IP
	id   uint16
}

// FNV-1 32-bit collision pairs (addr||id), found offline by a birthday search and re-verified
// at start-up through the exported cache structure.
var (
	collX = net.ParseIP("40.190.1.101")
	collY = net.ParseIP("46.200.140.78")
)

// shardIndex: the shard the real cache files a template of this key in (read off the exported structure).
func shardIndex(v9 bool, k ckey) int {
	cc := flowh.NewCaches()
	by := flowh.ElemByType()
	t := ref.Template{ID: k.id, Fields: []ref.Field{{ID: by[ref.TU32], Len: 4, Type: ref.TU32}}}
	flowh.Decode(v9, k.addr, (&ref.Msg{V9: v9, Hdr: hdrFor(v9, 1), Sets: []ref.Set{{Kind: ref.SetTemplates, Templates: []ref.Template{t}}}}).Encode(nil), cc)
	if v9 {
		for i, sh := range cc.N {
			if len(sh.Templates) > 0 {
				return i
			}
		}
		return -1
	}
	for i, sh := range cc.I {
		if len(sh.Templates) > 0 {
			return i
		}
	}
	return -1
}

// derivedKeys: exporter/id pairs that differ as (address, id) but coincide under a plausible
// *derived* key - the kind of key a rewritten cache might build:
//
//	derived-text: the address in text form followed by the id in decimal without a separator
//	  ("10.0.0.1"+"2256" = "10.0.0.12"+"256"); one pair filed in the SAME shard by the cache
//	  under test and one pair filed in different shards (found by a search at start-up);
//	derived-id: ids equal in their low octet (256/512) and ids that are octet-swapped images of
//	  each other (258/513), all of one exporter.
func derivedKeys(mode string, v9 bool) []ckey {
	if mode == "derived-addr" {
		// exporters that coincide in PART of their address: the same low 32 bits (two IPv6 exporters; an IPv6 one and
		// an IPv4 one), and - all being IPv6 or not - whatever a key built from To4() or from a truncated address merges
		return []ckey{{"6a::1/256", net.ParseIP("2001:db8:a::1"), 256}, {"6b::1/256", net.ParseIP("2001:db8:b::1"), 256},
			{"6::c000:201/256", net.ParseIP("2001:db8::c000:201"), 256}, {"192.0.2.1/256", net.ParseIP("192.0.2.1"), 256}}
	}
	if mode == "derived-id" {
		a := net.ParseIP("192.0.2.1")
		return []ckey{{"A/256", a, 256}, {"A/512", a, 512}, {"A/258", a, 258}, {"A/513", a, 513}}
	}
	var same, diff, first, second []ckey
	for id := 256; id < 1000 && (same == nil || diff == nil); id++ {
		for d := 1; d <= 9 && (same == nil || diff == nil); d++ {
			k1 := ckey{fmt.Sprintf("10.0.0.1/%d", d*1000+id), net.ParseIP("10.0.0.1"), uint16(d*1000 + id)}
			k2 := ckey{fmt.Sprintf("10.0.0.1%d/%d", d, id), net.ParseIP(fmt.Sprintf("10.0.0.1%d", d)), uint16(id)}
			if k1.addr.String()+fmt.Sprint(k1.id) != k2.addr.String()+fmt.Sprint(k2.id) {
				panic("derived-text pair is not text-ambiguous")
			}
			if first == nil {
				first = []ckey{k1, k2}
			} else if second == nil {
				second = []ckey{k1, k2}
			}
			if shardIndex(v9, k1) == shardIndex(v9, k2) {
				if same == nil {
					same = []ckey{k1, k2}
				}
			} else if diff == nil {
				diff = []ckey{k1, k2}
			}
		}
	}
	// a cache that files every such pair alike (or none) still gets two pairs
	if same == nil {
		same = first
	}
	if diff == nil {
		diff = second
		if same[0].name == second[0].name {
			diff = first
		}
	}
	return append(append([]ckey{}, same...), diff...)
}

func cacheKeys(tier string) []ckey {
	ks := []ckey{
		{"A/256", net.ParseIP("192.0.2.1"), 256},
		{"A/257", net.ParseIP("192.0.2.1"), 257},
		{"A4/256", net.IP{192, 0, 2, 1}, 256},
		{"C6/256", net.ParseIP("2001:db8::1"), 256},
		{"X/256", collX, 256},
		{"Y/256", collY, 256},
	}
	if tier == "thorough-keys" {
		ks = append(ks, ckey{"X6/256", net.ParseIP("2001:db8::6d2:d75f:4fe8:55c9"), 256}, ckey{"Y6/256", net.ParseIP("2001:db8::6bbd:2345:24c5:cd0b"), 256})
	}
	return ks
}

type cdef struct {
	name   string
	fields []ref.Field
	scope  []ref.Field // options template: scope fields (in front of the option fields)
}

// optionDefs: options templates that differ ONLY in their scope field, only in their option field, and in
// both - all with the same field counts and record length (mode "options").
func optionDefs() []cdef {
	var u16 []uint16
	for _, k := range flowh.ModelKeys() {
		if k[0] == 0 && k[1] < 30000 && flowh.TypeOf(0, uint16(k[1])) == ref.TU16 {
			u16 = append(u16, uint16(k[1]))
		}
	}
	if len(u16) < 4 {
		panic("the model has fewer than four unsigned16 elements")
	}
	f := func(id uint16) ref.Field { return ref.Field{ID: id, Len: 2, Type: ref.TU16} }
	return []cdef{
		{"o1[scope a | x]", []ref.Field{f(u16[2])}, []ref.Field{f(u16[0])}},
		{"o2[scope b | x]", []ref.Field{f(u16[2])}, []ref.Field{f(u16[1])}},
		{"o3[scope a | y]", []ref.Field{f(u16[3])}, []ref.Field{f(u16[0])}},
	}
}

func cacheDefs(tier string) []cdef {
	by := flowh.ElemByType()
	ds := []cdef{
		{name: "d1[u32]", fields: []ref.Field{{ID: by[ref.TU32], Len: 4, Type: ref.TU32}}},
		{name: "d2[u16,u16]", fields: []ref.Field{{ID: by[ref.TU16], Len: 2, Type: ref.TU16}, {ID: by[ref.TU16], Len: 2, Type: ref.TU16}}},
		{name: "d3[ipv4]", fields: []ref.Field{{ID: by[ref.TIPv4], Len: 4, Type: ref.TIPv4}}},
		// same element as d1, different field length (reduced-size encoding: two 2-octet records in the probe)
		{name: "d5[u32@2]", fields: []ref.Field{{ID: by[ref.TU32], Len: 2, Type: ref.TU32}}},
	}
	if tier == "thorough-defs" {
		ds = append(ds, cdef{name: "d4[u8x4]", fields: []ref.Field{{ID: by[ref.TU8], Len: 1, Type: ref.TU8}, {ID: by[ref.TU8], Len: 1, Type: ref.TU8}, {ID: by[ref.TU8], Len: 1, Type: ref.TU8}, {ID: by[ref.TU8], Len: 1, Type: ref.TU8}}})
	}
	if tier == "thorough-keys" || strings.HasPrefix(tier, "derived-") {
		ds = []cdef{ds[0], ds[2], ds[3]}
	}
	return ds
}

type cevent struct {
	kind string // ann, ann+data, data+ann, data, get, insert
	k    int
	d    int
}

func (e cevent) String(keys []ckey, defs []cdef) string {
	if e.kind == "data" || e.kind == "get" {
		return fmt.Sprintf("%s(%s)", e.kind, keys[e.k].name)
	}
	return fmt.Sprintf("%s(%s,%s)", e.kind, keys[e.k].name, defs[e.d].name)
}

var probeBody = []byte{1, 2, 3, 4}

type cacheEnv struct {
	sent uint32
	v9   bool
	keys []ckey
	defs []cdef
}

// partner: another template id of the same exporter (-1 if the alphabet has none)
func (e *cacheEnv) partner(k int) int {
	for j := range e.keys {
		if j != k && e.keys[j].addr.Equal(e.keys[k].addr) && len(e.keys[j].addr) == len(e.keys[k].addr) && e.keys[j].id != e.keys[k].id {
			return j
		}
	}
	return -1
}

func (e *cacheEnv) tpl(k, d int) ref.Template {
	return ref.Template{ID: e.keys[k].id, Options: len(e.defs[d].scope) > 0, Scope: e.defs[d].scope, Fields: e.defs[d].fields}
}

// msg: every message of a history carries LOWER header times and sequence numbers than the one before (an
// exporter whose clock was set back, that rebooted, or whose datagrams are delivered out of order): which
// template is the latest is decided by arrival at the collector, never by what the exporter's header claims.
func (e *cacheEnv) msg(sets ...ref.Set) *ref.Msg {
	e.sent++
	h := hdrFor(e.v9, 1)
	h[1] -= 1000 * e.sent
	h[2] -= 1000 * e.sent
	if e.v9 {
		h[3] -= e.sent
	}
	return &ref.Msg{V9: e.v9, Hdr: h, Sets: sets}
}

// apply runs one event on the real caches; returns the records decoded (for events carrying
// data) and whether the decoder said "unknown template".
func (e *cacheEnv) apply(c *flowh.Caches, ev cevent) (recs [][]ref.ExpField, unknown bool, got string) {
	k := e.keys[ev.k]
	dataSet := ref.Set{Kind: ref.SetRaw, RawID: k.id, RawBody: probeBody}
	switch ev.kind {
	case "ann-cut": // an announcement that does not arrive completely: the datagram ends inside the template's field list
		t := e.tpl(ev.k, ev.d)
		ts := ref.Set{Kind: ref.SetTemplates, Templates: []ref.Template{t}}
		if e.v9 && t.Options {
			ts.Pad = (4 - (6+4*len(t.All()))%4) % 4
		}
		b := e.msg(ts).Encode(nil)
		cut := 4 + ts.Pad // the last field specifier is missing (with it the padding behind it)
		if len(t.All()) < 2 || len(b) <= cut+24 {
			cut = 2 // a single field: cut in the middle of its specifier
		}
		r := flowh.Decode(e.v9, k.addr, b[:len(b)-cut], c)
		return r.Records, false, fmt.Sprint(r.Err)
	case "ann", "ann+data", "data+ann", "data+ann+data", "ann-two-in-one-set":
		t := e.tpl(ev.k, ev.d)
		ts := ref.Set{Kind: ref.SetTemplates, Templates: []ref.Template{t}}
		if e.v9 && t.Options {
			ts.Pad = (4 - (6+4*len(t.All()))%4) % 4
		}
		if ev.kind == "ann-two-in-one-set" { // this id and another id of the same exporter announced by ONE set, then data for this id
			p := e.partner(ev.k)
			ts.Templates = []ref.Template{t, e.tpl(p, (ev.d+1)%len(e.defs))}
			r := flowh.Decode(e.v9, k.addr, e.msg(ts, dataSet).Encode(nil), c)
			return r.Records, r.Err != nil && strings.Contains(r.Err.Error(), "unknown"), fmt.Sprint(r.Err)
		}
		var m *ref.Msg
		switch ev.kind {
		case "ann":
			m = e.msg(ts)
		case "ann+data":
			m = e.msg(ts, dataSet)
		case "data+ann+data":
			m = e.msg(dataSet, ts, dataSet)
		default:
			m = e.msg(dataSet, ts)
		}
		r := flowh.Decode(e.v9, k.addr, m.Encode(nil), c)
		return r.Records, r.Err != nil && strings.Contains(r.Err.Error(), "unknown"), fmt.Sprint(r.Err)
	case "data":
		r := flowh.Decode(e.v9, k.addr, e.msg(dataSet).Encode(nil), c)
		return r.Records, r.Err != nil && strings.Contains(r.Err.Error(), "unknown"), fmt.Sprint(r.Err)
	case "get": // peer lookup (IPFIX only): IRPC.Get
		var resp ipfix.TemplateRecord
		err := ipfix.NewRPC(c.I).Get(ipfix.RPCRequest{ID: k.id, IP: append(net.IP{}, k.addr...)}, &resp)
		if err != nil {
			return nil, true, err.Error()
		}
		// render the returned template as the record it would decode from the probe body
		var out [][]ref.ExpField
		off := 0
		for off < len(probeBody) && len(resp.FieldSpecifiers)+len(resp.ScopeFieldSpecifiers) > 0 {
			var rec []ref.ExpField
			for _, f := range append(append([]ipfix.TemplateFieldSpecifier{}, resp.ScopeFieldSpecifiers...), resp.FieldSpecifiers...) {
				if off+int(f.Length) > len(probeBody) || f.Length == 0 {
					return out, false, "template does not fit the probe"
				}
				at := flowh.TypeOf(f.EnterpriseNo, f.ElementID)
				if at == ref.TUnknown { // a decoder cannot use this template: no records
					return nil, false, ""
				}
				rec = append(rec, ref.ExpField{ID: f.ElementID, PEN: f.EnterpriseNo, Value: ref.Interpret(at, probeBody[off:off+int(f.Length)])})
				off += int(f.Length)
			}
			out = append(out, rec)
		}
		return out, false, ""
	case "insert": // template fetched from a peer collector
		t := e.tpl(ev.k, ev.d)
		if e.v9 {
			tr := netflow9.TemplateRecord{TemplateID: t.ID, FieldCount: uint16(len(t.Fields))}
			for _, f := range t.Fields {
				tr.FieldSpecifiers = append(tr.FieldSpecifiers, netflow9.TemplateFieldSpecifier{ElementID: f.ID, Length: f.Len})
			}
			netflow9.VerifInsert(c.N, k.id, append(net.IP{}, k.addr...), tr)
		} else {
			tr := ipfix.TemplateRecord{TemplateID: t.ID, FieldCount: uint16(len(t.Fields))}
			for _, f := range t.Fields {
				tr.FieldSpecifiers = append(tr.FieldSpecifiers, ipfix.TemplateFieldSpecifier{ElementID: f.ID, Length: f.Len})
			}
			ipfix.VerifInsert(c.I, k.id, append(net.IP{}, k.addr...), tr)
		}
	}
	return nil, false, ""
}

// undecodable: the definition names an element the information model does not have - data for it yields no
// records (and is not an "unknown template" either); it still is the exporter's LATEST template.
func (e *cacheEnv) undecodable(d int) bool {
	for _, f := range append(append([]ref.Field{}, e.defs[d].scope...), e.defs[d].fields...) {
		if f.Type == ref.TUnknown {
			return true
		}
	}
	return false
}

func (e *cacheEnv) expected(d int) [][]ref.ExpField {
	if e.undecodable(d) {
		return nil
	}
	var out [][]ref.ExpField
	off := 0
	for off < len(probeBody) {
		var rec []ref.ExpField
		for _, f := range append(append([]ref.Field{}, e.defs[d].scope...), e.defs[d].fields...) {
			rec = append(rec, ref.ExpField{ID: f.ID, Value: ref.Interpret(f.Type, probeBody[off:off+int(f.Len)])})
			off += int(f.Len)
		}
		out = append(out, rec)
	}
	return out
}

// cacheBFS: the reference model is searched breadth-first on its own (it is a pure function) to
// enumerate every state and a shortest history reaching it; each state is then one case: its
// history is replayed on a fresh REAL cache (every event of the replay is checked too), every
// event of the alphabet is applied from it (fresh cache + replay each time), and every key is
// probed after every transition. Histories use the four announcing event kinds in rotation, so the
// same reference state is reached through different code paths across cases.
func cacheBFS(tier string) mck.Space {
	flowh.InstallExtra()
	type cfg struct {
		v9   bool
		keys []ckey
		defs []cdef
	}
	var cfgs []cfg
	modes := []string{tier}
	if tier == "thorough" {
		modes = []string{"thorough-keys", "thorough-defs"}
	}
	modes = append(modes, "derived-text", "derived-id", "derived-addr", "options", "undecodable")
	for _, m := range modes {
		for _, v9 := range []bool{false, true} {
			if m == "undecodable" {
				by := flowh.ElemByType()
				cfgs = append(cfgs, cfg{v9, []ckey{{"A/256", net.ParseIP("192.0.2.1"), 256}, {"B/256", net.ParseIP("192.0.2.2"), 256}}, []cdef{
					{name: "d1[u32]", fields: []ref.Field{{ID: by[ref.TU32], Len: 4, Type: ref.TU32}}},
					{name: "dU[absent element]", fields: []ref.Field{{ID: 9999, Len: 4, Type: ref.TUnknown}}},
					{name: "dV[u16, absent element]", fields: []ref.Field{{ID: by[ref.TU16], Len: 2, Type: ref.TU16}, {ID: 9998, Len: 2, Type: ref.TUnknown}}},
				}})
				continue
			}
			if m == "options" {
				a := net.ParseIP("192.0.2.1")
				cfgs = append(cfgs, cfg{v9, []ckey{{"A/256", a, 256}, {"A/257", a, 257}, {"B/256", net.ParseIP("192.0.2.2"), 256}}, optionDefs()})
				continue
			}
			if strings.HasPrefix(m, "derived-") {
				cfgs = append(cfgs, cfg{v9, derivedKeys(m, v9), cacheDefs(m)})
				continue
			}
			cfgs = append(cfgs, cfg{v9, cacheKeys(m), cacheDefs(m)})
		}
	}
	type st struct {
		ref  []int
		path []cevent
	}
	kinds := []string{"ann", "ann+data", "data+ann", "insert"}
	var states [][]st
	var cum []uint64
	total := uint64(0)
	for _, cf := range cfgs {
		nk, nd := len(cf.keys), len(cf.defs)
		start := make([]int, nk)
		for i := range start {
			start[i] = -1
		}
		seen := map[string]bool{fmt.Sprint(start): true}
		list := []st{{start, nil}}
		for i := 0; i < len(list); i++ {
			cur := list[i]
			for k := 0; k < nk; k++ {
				for d := 0; d < nd; d++ {
					nr := append([]int{}, cur.ref...)
					nr[k] = d
					if ks := fmt.Sprint(nr); !seen[ks] {
						seen[ks] = true
						kind := kinds[len(list)%len(kinds)]
						if kind == "insert" && len(cf.defs[d].scope) > 0 {
							kind = "ann" // the peer-insert event carries plain templates only
						}
						list = append(list, st{nr, append(append([]cevent{}, cur.path...), cevent{kind, k, d})})
					}
				}
			}
		}
		states = append(states, list)
		cum = append(cum, total)
		total += uint64(len(list))
	}
	return mck.FuncSpace{N: total, F: func(idx uint64, c *mck.Ctx) {
		ci := 0
		for ci+1 < len(cum) && cum[ci+1] <= idx {
			ci++
		}
		cf := cfgs[ci]
		state := states[ci][idx-cum[ci]]
		env := &cacheEnv{v9: cf.v9, keys: cf.keys, defs: cf.defs}
		proto := "ipfix"
		if env.v9 {
			proto = "v9"
		}
		// the alphabet must contain keys that collide under 32-bit FNV-1 of addr||id (the hash the
		// cache shards by): recomputed here so that the point of the alphabet cannot silently be lost
		colliding := map[int]bool{}
		for a := range env.keys {
			for b := range env.keys {
				if a != b && fnv1(env.keys[a]) == fnv1(env.keys[b]) {
					colliding[a] = true
				}
			}
		}
		if len(colliding) == 0 && env.keys[0].name == "A/256" && len(env.keys) >= 6 {
			panic("C04 alphabet holds no FNV-colliding exporter/id pair")
		}
		var evs []cevent
		for k := range env.keys {
			for d := range env.defs {
				evs = append(evs, cevent{"ann", k, d}, cevent{"ann+data", k, d}, cevent{"data+ann", k, d}, cevent{"data+ann+data", k, d}, cevent{"ann-cut", k, d})
				if len(env.defs[d].scope) > 0 {
					continue
				}
				evs = append(evs, cevent{"insert", k, d})
				if env.partner(k) >= 0 {
					evs = append(evs, cevent{"ann-two-in-one-set", k, d})
				}
			}
			evs = append(evs, cevent{"data", k, 0})
			if !env.v9 {
				evs = append(evs, cevent{"get", k, 0})
			}
		}
		descPath := func(p []cevent) []string {
			var s []string
			for _, e := range p {
				s = append(s, e.String(env.keys, env.defs))
			}
			return s
		}
		reported := map[string]bool{}
		// one transition: apply ev on cc whose reference state is cur; returns the new reference state
		stepCheck := func(cc *flowh.Caches, cur []int, ev cevent, hist []cevent) []int {
			if !env.v9 {
				ipfix.VerifDrainRPC()
			}
			recs, unknown, errs := env.apply(cc, ev)
			c.Transitions(1)
			nref := append([]int{}, cur...)
			var wantRecs [][]ref.ExpField
			wantUnknown := false
			switch ev.kind {
			case "ann", "insert":
				nref[ev.k] = ev.d
			case "ann+data":
				nref[ev.k] = ev.d
				wantRecs = env.expected(ev.d)
			case "ann-two-in-one-set":
				nref[ev.k] = ev.d
				nref[env.partner(ev.k)] = (ev.d + 1) % len(env.defs)
				wantRecs = env.expected(ev.d)
			case "data+ann":
				if cur[ev.k] >= 0 {
					wantRecs = env.expected(cur[ev.k])
				} else {
					wantUnknown = true
				}
				nref[ev.k] = ev.d
			case "data+ann+data": // first data set under the old definition (if any), second under the new one
				if cur[ev.k] >= 0 {
					wantRecs = append(wantRecs, env.expected(cur[ev.k])...)
				}
				wantRecs = append(wantRecs, env.expected(ev.d)...)
				nref[ev.k] = ev.d
			case "data", "get":
				if cur[ev.k] >= 0 {
					wantRecs = env.expected(cur[ev.k])
				} else {
					wantUnknown = true
				}
			}
			bad := func(where string, k int, msg string) {
				cls := "other"
				if len(env.keys) == 4 {
					cls = "derived-key-pairs"
				}
				if len(env.defs[0].scope) > 0 {
					cls = "options-templates"
				}
				if len(env.keys) == 2 {
					cls = "undecodable-definitions"
				}
				if colliding[k] {
					cls = "hash-colliding-keys"
				}
				sig := fmt.Sprintf("%s:cache:%s:%s", proto, where, cls)
				if reported[sig] {
					return
				}
				reported[sig] = true
				c.Violation(sig, msg, map[string]interface{}{"history": descPath(hist), "event": ev.String(env.keys, env.defs), "reference_state_before": cur, "keys": keyNames(env.keys), "err": errs})
			}
			if ev.kind == "data+ann+data" {
				if cls, m := flowh.CompareRecords(recs, wantRecs); cls != "" {
					bad("event-"+ev.kind, ev.k, fmt.Sprintf("%s: %s (got %v)", ev.String(env.keys, env.defs), m, flowh.DescribeRecords(recs)))
				}
			} else if ev.kind == "ann-cut" {
				// nothing is expected of the cut datagram itself; the reference state does not change: what did not
				// arrive completely is not a definition (the probes below and the content comparison judge that)
				if len(recs) != 0 {
					bad("event-"+ev.kind, ev.k, fmt.Sprintf("%s: a template datagram cut inside its field list yielded records %v", ev.String(env.keys, env.defs), flowh.DescribeRecords(recs)))
				}
			} else if ev.kind != "ann" && ev.kind != "insert" {
				if wantUnknown {
					if len(recs) != 0 || !unknown {
						bad("event-"+ev.kind, ev.k, fmt.Sprintf("%s: template not announced by this exporter, yet records=%v unknown=%v", ev.String(env.keys, env.defs), flowh.DescribeRecords(recs), unknown))
					}
				} else if cls, m := flowh.CompareRecords(recs, wantRecs); cls != "" {
					bad("event-"+ev.kind, ev.k, fmt.Sprintf("%s: %s (got %v)", ev.String(env.keys, env.defs), m, flowh.DescribeRecords(recs)))
				}
			}
			for k := range env.keys {
				precs, punk, _ := env.apply(cc, cevent{"data", k, 0})
				if nref[k] < 0 {
					if len(precs) != 0 || !punk {
						bad("probe", k, fmt.Sprintf("after %s: data for %s decoded as %v although that exporter never announced the template", ev.String(env.keys, env.defs), env.keys[k].name, flowh.DescribeRecords(precs)))
					}
				} else if cls, m := flowh.CompareRecords(precs, env.expected(nref[k])); cls != "" {
					bad("probe", k, fmt.Sprintf("after %s: data for %s: %s (decoded %v, latest own template %s)", ev.String(env.keys, env.defs), env.keys[k].name, m, flowh.DescribeRecords(precs), env.defs[nref[k]].name))
				}
			}
			if !env.v9 {
				ipfix.VerifDrainRPC()
			}
			return nref
		}
		build := func(check bool) (*flowh.Caches, []int) {
			cc := flowh.NewCaches()
			cur := make([]int, len(env.keys))
			for i := range cur {
				cur[i] = -1
			}
			for i, pe := range state.path {
				if check {
					cur = stepCheck(cc, cur, pe, state.path[:i])
				} else {
					env.apply(cc, pe)
				}
			}
			return cc, state.ref
		}
		// the history itself, every step checked; its cache content is this state's canonical content
		cc0, _ := build(true)
		canon := flowh.CacheKey(cc0, env.v9)
		for _, ev := range evs {
			cc, cur := build(false)
			nref := stepCheck(cc, cur, ev, state.path)
			// a transition that leaves the reference state unchanged must leave the cache content unchanged
			if fmt.Sprint(nref) == fmt.Sprint(cur) && flowh.CacheKey(cc, env.v9) != canon && !reported["nf"] {
				reported["nf"] = true
				c.Violation(proto+":cache:content-not-a-function-of-state", "an event that does not change the reference state changed the cache content", map[string]interface{}{"history": descPath(state.path), "event": ev.String(env.keys, env.defs)})
			}
		}
		c.States(1)
		c.Depth(uint64(len(state.path) + 1))
		c.Nontrivial(mck.HashStr(proto, fmt.Sprint(len(env.keys), len(env.defs)), fmt.Sprint(state.ref)))
		c.Outcome(fmt.Sprintf("%s depth=%d", proto, len(state.path)))
		if idx%4099 == 0 {
			c.Sample(func() interface{} {
				return map[string]interface{}{"protocol": proto, "keys": keyNames(env.keys), "definitions": len(env.defs), "events_per_state": len(evs), "reference_state": state.ref, "history": descPath(state.path)}
			})
		}
	}}
}

func fnv1(k ckey) uint32 {
	h := fnv.New32()
	h.Write(append(append([]byte{}, k.addr...), byte(k.id>>8), byte(k.id)))
	return h.Sum32()
}

func keyNames(ks []ckey) []string {
	var s []string
	for _, k := range ks {
		s = append(s, fmt.Sprintf("%s=%s#%d(len %d)", k.name, k.addr, k.id, len(k.addr)))
	}
	return s
}

// cacheCapacity: a template stays the exporter's latest however MANY other exporters announce theirs
// afterwards (there is no bound in the statement): the victim announces, N other exporter/id pairs announce,
// then the victim's data - and that of every 97th other exporter - must decode under their own templates.
func cacheCapacity(tier string) mck.Space {
	flowh.InstallExtra()
	ns := []int{1, 31, 32, 33, 1000, 4095, 4096, 4097, 40000, 140000}
	if tier == "thorough" {
		ns = append(ns, 300000, 600000)
	}
	dims := mck.Radix{2, uint64(len(ns)), 2}
	return mck.FuncSpace{N: dims.Size(), F: func(idx uint64, c *mck.Ctx) {
		d := dims.Digits(idx)
		v9, n, sameID := d[0] == 1, ns[d[1]], d[2] == 1
		proto := "ipfix"
		if v9 {
			proto = "v9"
		}
		env := &cacheEnv{v9: v9, defs: cacheDefs("quick")}
		desc := func() interface{} {
			return map[string]interface{}{"protocol": proto, "other_announcements": n, "others_use_the_victims_template_id": sameID}
		}
		c.SetCase(desc)
		c.Heartbeat()
		cc := flowh.NewCaches()
		victim := ckey{"victim", net.ParseIP("192.0.2.1"), 256}
		other := func(i int) ckey {
			id := uint16(256)
			if !sameID {
				id = uint16(257 + i%4000)
			}
			return ckey{"", net.IPv4(10, byte(i>>16), byte(i>>8), byte(i)), id}
		}
		ann := func(k ckey, def int) {
			t := ref.Template{ID: k.id, Fields: env.defs[def].fields}
			flowh.Decode(v9, k.addr, env.msg(ref.Set{Kind: ref.SetTemplates, Templates: []ref.Template{t}}).Encode(nil), cc)
		}
		probe := func(k ckey, def int) string {
			r := flowh.Decode(v9, k.addr, env.msg(ref.Set{Kind: ref.SetRaw, RawID: k.id, RawBody: probeBody}).Encode(nil), cc)
			if cls, m := flowh.CompareRecords(r.Records, env.expected(def)); cls != "" {
				return fmt.Sprintf("%s (decoded %v, err %v)", m, flowh.DescribeRecords(r.Records), r.Err)
			}
			return ""
		}
		ann(victim, 0)
		for i := 0; i < n; i++ {
			ann(other(i), 1+i%2)
			if i%20000 == 0 {
				c.Heartbeat()
			}
		}
		c.Transitions(uint64(n + 1))
		c.States(1)
		c.Nontrivial(mck.HashStr(proto, fmt.Sprint(n, sameID)))
		if m := probe(victim, 0); m != "" {
			c.Violation(proto+":cache:capacity:victim", fmt.Sprintf("after %d announcements by other exporters the first exporter's data is no longer decoded with its own template: %s", n, m), desc())
			return
		}
		for i := 0; i < n; i += 97 {
			if m := probe(other(i), 1+i%2); m != "" {
				c.Violation(proto+":cache:capacity:other", fmt.Sprintf("exporter %d of %d: %s", i, n, m), desc())
				return
			}
		}
		c.Outcome(fmt.Sprintf("n=%d ok", n))
		c.Sample(desc)
	}}
}

package main

import (
	"fmt"
	"hash/fnv"
	"net"
	"sort"
	"strings"

	"github.com/EdgeCast/vflow/ipfix"
	netflow9 "github.com/EdgeCast/vflow/netflow/v9"
	"github.com/EdgeCast/vflow/zzverif/flowh"
	"github.com/EdgeCast/vflow/zzverif/mck"
	"github.com/EdgeCast/vflow/zzverif/ref"
)

// C04: data is decoded only with the same exporter's latest template.
// Explicit-state BFS: state = reference map key -> definition; transition = one event applied
// to a fresh real cache after replaying the shortest history; after every transition every key
// is probed with a data message.

func init() {
	spaces["cache.bfs"] = func(t string) mck.Space { return cacheBFS(t) }
}

type ckey struct {
	name string
	addr net.IP
	id   uint16
}

// FNV-1 32-bit collision pairs (addr||id), found offline by a birthday search and re-verified
// at start-up through the exported cache structure.
var (
	collX = net.ParseIP("40.190.1.101")
	collY = net.ParseIP("46.200.140.78")
)

func cacheKeys(tier string) []ckey {
	ks := []ckey{
		{"A/256", net.ParseIP("192.0.2.1"), 256},
		{"A/257", net.ParseIP("192.0.2.1"), 257},
		{"A4/256", net.IP{192, 0, 2, 1}, 256},
		{"C6/256", net.ParseIP("2001:db8::1"), 256},
		{"X/256", collX, 256},
		{"Y/256", collY, 256},
	}
	if tier == "thorough" {
		ks = append(ks, ckey{"X6/256", net.ParseIP("2001:db8::6d2:d75f:4fe8:55c9"), 256}, ckey{"Y6/256", net.ParseIP("2001:db8::6bbd:2345:24c5:cd0b"), 256})
	}
	return ks
}

type cdef struct {
	name   string
	fields []ref.Field
}

func cacheDefs(tier string) []cdef {
	by := flowh.ElemByType()
	ds := []cdef{
		{"d1[u32]", []ref.Field{{ID: by[ref.TU32], Len: 4, Type: ref.TU32}}},
		{"d2[u16,u16]", []ref.Field{{ID: by[ref.TU16], Len: 2, Type: ref.TU16}, {ID: by[ref.TU16], Len: 2, Type: ref.TU16}}},
		{"d3[ipv4]", []ref.Field{{ID: by[ref.TIPv4], Len: 4, Type: ref.TIPv4}}},
	}
	if tier == "thorough" {
		ds = append(ds, cdef{"d4[u8x4]", []ref.Field{{ID: by[ref.TU8], Len: 1, Type: ref.TU8}, {ID: by[ref.TU8], Len: 1, Type: ref.TU8}, {ID: by[ref.TU8], Len: 1, Type: ref.TU8}, {ID: by[ref.TU8], Len: 1, Type: ref.TU8}}})
	}
	return ds
}

type cevent struct {
	kind string // ann, ann+data, data+ann, data, get, insert
	k    int
	d    int
}

func (e cevent) String(keys []ckey, defs []cdef) string {
	if e.kind == "data" || e.kind == "get" {
		return fmt.Sprintf("%s(%s)", e.kind, keys[e.k].name)
	}
	return fmt.Sprintf("%s(%s,%s)", e.kind, keys[e.k].name, defs[e.d].name)
}

var probeBody = []byte{1, 2, 3, 4}

type cacheEnv struct {
	v9   bool
	keys []ckey
	defs []cdef
}

func (e *cacheEnv) tpl(k, d int) ref.Template {
	return ref.Template{ID: e.keys[k].id, Fields: e.defs[d].fields}
}

func (e *cacheEnv) msg(sets ...ref.Set) *ref.Msg {
	return &ref.Msg{V9: e.v9, Hdr: hdrFor(e.v9, 1), Sets: sets}
}

// apply runs one event on the real caches; returns the records decoded (for events carrying
// data) and whether the decoder said "unknown template".
func (e *cacheEnv) apply(c *flowh.Caches, ev cevent) (recs [][]ref.ExpField, unknown bool, got string) {
	k := e.keys[ev.k]
	dataSet := ref.Set{Kind: ref.SetRaw, RawID: k.id, RawBody: probeBody}
	switch ev.kind {
	case "ann", "ann+data", "data+ann":
		t := e.tpl(ev.k, ev.d)
		ts := ref.Set{Kind: ref.SetTemplates, Templates: []ref.Template{t}}
		var m *ref.Msg
		switch ev.kind {
		case "ann":
			m = e.msg(ts)
		case "ann+data":
			m = e.msg(ts, dataSet)
		default:
			m = e.msg(dataSet, ts)
		}
		r := flowh.Decode(e.v9, k.addr, m.Encode(nil), c)
		return r.Records, r.Err != nil && strings.Contains(r.Err.Error(), "unknown"), fmt.Sprint(r.Err)
	case "data":
		r := flowh.Decode(e.v9, k.addr, e.msg(dataSet).Encode(nil), c)
		return r.Records, r.Err != nil && strings.Contains(r.Err.Error(), "unknown"), fmt.Sprint(r.Err)
	case "get": // peer lookup (IPFIX only): IRPC.Get
		var resp ipfix.TemplateRecord
		err := ipfix.NewRPC(c.I).Get(ipfix.RPCRequest{ID: k.id, IP: append(net.IP{}, k.addr...)}, &resp)
		if err != nil {
			return nil, true, err.Error()
		}
		// render the returned template as the record it would decode from the probe body
		var rec []ref.ExpField
		off := 0
		for _, f := range resp.FieldSpecifiers {
			at := flowh.TypeOf(f.EnterpriseNo, f.ElementID)
			rec = append(rec, ref.ExpField{ID: f.ElementID, PEN: f.EnterpriseNo, Value: ref.Interpret(at, probeBody[off:off+int(f.Length)])})
			off += int(f.Length)
		}
		return [][]ref.ExpField{rec}, false, ""
	case "insert": // template fetched from a peer collector
		t := e.tpl(ev.k, ev.d)
		if e.v9 {
			tr := netflow9.TemplateRecord{TemplateID: t.ID, FieldCount: uint16(len(t.Fields))}
			for _, f := range t.Fields {
				tr.FieldSpecifiers = append(tr.FieldSpecifiers, netflow9.TemplateFieldSpecifier{ElementID: f.ID, Length: f.Len})
			}
			netflow9.VerifInsert(c.N, k.id, append(net.IP{}, k.addr...), tr)
		} else {
			tr := ipfix.TemplateRecord{TemplateID: t.ID, FieldCount: uint16(len(t.Fields))}
			for _, f := range t.Fields {
				tr.FieldSpecifiers = append(tr.FieldSpecifiers, ipfix.TemplateFieldSpecifier{ElementID: f.ID, Length: f.Len})
			}
			ipfix.VerifInsert(c.I, k.id, append(net.IP{}, k.addr...), tr)
		}
	}
	return nil, false, ""
}

func (e *cacheEnv) expected(d int) [][]ref.ExpField {
	var rec []ref.ExpField
	off := 0
	for _, f := range e.defs[d].fields {
		rec = append(rec, ref.ExpField{ID: f.ID, Value: ref.Interpret(f.Type, probeBody[off:off+int(f.Len)])})
		off += int(f.Len)
	}
	return [][]ref.ExpField{rec}
}

func cacheBFS(tier string) mck.Space {
	flowh.InstallExtra()
	return mck.FuncSpace{N: 2, F: func(idx uint64, c *mck.Ctx) {
		env := &cacheEnv{v9: idx == 1, keys: cacheKeys(tier), defs: cacheDefs(tier)}
		proto := "ipfix"
		if env.v9 {
			proto = "v9"
		}
		// re-verify the committed collision pairs against the implementation: two announcements
		// from X and Y must leave ONE entry in the exported cache structure iff the keys collide
		collide := func(a, b int) bool {
			cc := flowh.NewCaches()
			env.apply(cc, cevent{"ann", a, 0})
			n1 := flowh.CacheEntries(cc, env.v9)
			env.apply(cc, cevent{"ann", b, 1})
			return flowh.CacheEntries(cc, env.v9) == n1
		}
		colliding := map[[2]int]bool{}
		for a := range env.keys {
			for b := range env.keys {
				if a < b && collide(a, b) {
					colliding[[2]int{a, b}] = true
				}
			}
		}
		c.Count("colliding_key_pairs_confirmed_on_impl", uint64(len(colliding)))
		// the alphabet must contain keys that collide under 32-bit FNV-1 of addr||id (the hash the
		// cache shards by): recomputed here so that the point of the alphabet cannot silently be lost
		fnvEq := 0
		for a := range env.keys {
			for b := range env.keys {
				if a < b && fnv1(env.keys[a]) == fnv1(env.keys[b]) {
					fnvEq++
				}
			}
		}
		if fnvEq == 0 {
			panic("C04 alphabet holds no FNV-colliding exporter/id pair")
		}
		c.Count("fnv32_colliding_key_pairs_in_alphabet", uint64(fnvEq))
		// event alphabet
		var evs []cevent
		for k := range env.keys {
			for d := range env.defs {
				evs = append(evs, cevent{"ann", k, d}, cevent{"ann+data", k, d}, cevent{"data+ann", k, d}, cevent{"insert", k, d})
			}
			evs = append(evs, cevent{"data", k, 0})
			if !env.v9 {
				evs = append(evs, cevent{"get", k, 0})
			}
		}
		nk := len(env.keys)
		type state struct {
			ref  []int // per key: -1 none, else def index
			path []cevent
		}
		keyOf := func(r []int) string { return fmt.Sprint(r) }
		start := state{ref: make([]int, nk)}
		for i := range start.ref {
			start.ref[i] = -1
		}
		seen := map[string]bool{keyOf(start.ref): true}
		implKeys := map[string]string{} // ref state -> canonical impl cache content (must be a function)
		frontier := []state{start}
		depth := 0
		reported := map[string]bool{}
		descPath := func(p []cevent) []string {
			var s []string
			for _, e := range p {
				s = append(s, e.String(env.keys, env.defs))
			}
			return s
		}
		for len(frontier) > 0 {
			var next []state
			for _, st := range frontier {
				for _, ev := range evs {
					cc := flowh.NewCaches()
					for _, pe := range st.path {
						env.apply(cc, pe)
					}
					if !env.v9 {
						ipfix.VerifDrainRPC()
					}
					recs, unknown, errs := env.apply(cc, ev)
					c.Transitions(1)
					nref := append([]int{}, st.ref...)
					// reference semantics
					var wantRecs [][]ref.ExpField
					wantUnknown := false
					switch ev.kind {
					case "ann", "insert":
						nref[ev.k] = ev.d
					case "ann+data":
						nref[ev.k] = ev.d
						wantRecs = env.expected(ev.d)
					case "data+ann":
						if st.ref[ev.k] >= 0 {
							wantRecs = env.expected(st.ref[ev.k])
						} else {
							wantUnknown = true
						}
						nref[ev.k] = ev.d
					case "data", "get":
						if st.ref[ev.k] >= 0 {
							wantRecs = env.expected(st.ref[ev.k])
						} else {
							wantUnknown = true
						}
					}
					bad := func(where string, k int, msg string) {
						cls := "other"
						for p := range colliding {
							if p[0] == k || p[1] == k {
								// the failing key has a hash twin; is the twin defined in the reference state?
								cls = "hash-colliding-keys"
							}
						}
						sig := fmt.Sprintf("%s:cache:%s:%s", proto, where, cls)
						if reported[sig+keyOf(nref)] {
							return
						}
						reported[sig+keyOf(nref)] = true
						c.Violation(sig, msg, map[string]interface{}{"history": descPath(st.path), "event": ev.String(env.keys, env.defs), "reference_state_before": st.ref, "keys": keyNames(env.keys), "err": errs})
					}
					if ev.kind != "ann" && ev.kind != "insert" {
						if wantUnknown {
							if len(recs) != 0 || !unknown {
								bad("event-"+ev.kind, ev.k, fmt.Sprintf("%s: template not announced by this exporter, yet records=%v unknown=%v", ev.String(env.keys, env.defs), flowh.DescribeRecords(recs), unknown))
							}
						} else if cls, m := flowh.CompareRecords(recs, wantRecs); cls != "" {
							bad("event-"+ev.kind, ev.k, fmt.Sprintf("%s: %s (got %v)", ev.String(env.keys, env.defs), m, flowh.DescribeRecords(recs)))
						}
					}
					// probe every key (reads only)
					ok := true
					for k := range env.keys {
						precs, punk, _ := env.apply(cc, cevent{"data", k, 0})
						if nref[k] < 0 {
							if len(precs) != 0 || !punk {
								bad("probe", k, fmt.Sprintf("after %s: data for %s decoded as %v although that exporter never announced the template", ev.String(env.keys, env.defs), env.keys[k].name, flowh.DescribeRecords(precs)))
								ok = false
							}
						} else if cls, m := flowh.CompareRecords(precs, env.expected(nref[k])); cls != "" {
							bad("probe", k, fmt.Sprintf("after %s: data for %s: %s (decoded %v, latest own template %s)", ev.String(env.keys, env.defs), env.keys[k].name, m, flowh.DescribeRecords(precs), env.defs[nref[k]].name))
							ok = false
						}
					}
					if !env.v9 {
						ipfix.VerifDrainRPC()
					}
					ks := keyOf(nref)
					ik := flowh.CacheKey(cc, env.v9)
					if prev, have := implKeys[ks]; have && prev != ik && ok {
						bad("state-not-a-function", ev.k, "two histories with the same reference state left different cache contents")
					} else if !have {
						implKeys[ks] = ik
					}
					if !seen[ks] {
						seen[ks] = true
						next = append(next, state{nref, append(append([]cevent{}, st.path...), ev)})
					}
				}
			}
			frontier = next
			depth++
		}
		c.States(uint64(len(seen)))
		c.Depth(uint64(depth))
		var sk []string
		for k := range seen {
			sk = append(sk, k)
		}
		sort.Strings(sk)
		for _, k := range sk {
			c.Nontrivial(mck.HashStr(proto, k))
		}
		c.Sample(func() interface{} {
			return map[string]interface{}{"protocol": proto, "keys": keyNames(env.keys), "definitions": len(env.defs), "events_per_state": len(evs), "states": len(seen), "bfs_depth": depth,
				"example_state": sk[len(sk)/2], "colliding_pairs": fmt.Sprint(colliding)}
		})
	}}
}

func fnv1(k ckey) uint32 {
	h := fnv.New32()
	h.Write(append(append([]byte{}, k.addr...), byte(k.id>>8), byte(k.id)))
	return h.Sum32()
}

func keyNames(ks []ckey) []string {
	var s []string
	for _, k := range ks {
		s = append(s, fmt.Sprintf("%s=%s#%d(len %d)", k.name, k.addr, k.id, len(k.addr)))
	}
	return s
}

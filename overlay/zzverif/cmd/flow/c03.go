package main

import (
	"encoding/hex"
	"fmt"
	"os"
	"path/filepath"
	"strings"

	"github.com/EdgeCast/vflow/ipfix"

	"github.com/EdgeCast/vflow/zzverif/flowh"
	"github.com/EdgeCast/vflow/zzverif/mck"
	"github.com/EdgeCast/vflow/zzverif/ref"
)

func init() {
	for _, v9 := range []bool{false, true} {
		v9 := v9
		p := "ipfix"
		if v9 {
			p = "v9"
		}
		spaces[p+".tpl2"] = func(t string) mck.Space { return tplSpace(v9, flowh.Kinds(v9, false), 2, false) }
		spaces[p+".tpl3s"] = func(t string) mck.Space { return tplSpace(v9, flowh.Kinds(v9, true), 3, false) }
		spaces[p+".tpl3"] = func(t string) mck.Space { return tplSpace(v9, flowh.Kinds(v9, false), 3, false) }
		spaces[p+".pad8"] = func(t string) mck.Space { return tplSpace(v9, flowh.Kinds(v9, true), 2, true) }
		spaces[p+".twosets"] = func(t string) mck.Space { return twoSetSpace(v9, flowh.Kinds(v9, true)) }
		spaces[p+".allelems"] = func(t string) mck.Space { return allElemSpace(v9) }
		spaces[p+".loaded"] = func(t string) mck.Space { return loadedElemSpace(v9) }
		spaces[p+".counts"] = func(t string) mck.Space { return countsSpace(v9, t) }
		spaces[p+".typeinfo"] = func(t string) mck.Space { return typeInfoSpace(v9) }
		spaces[p+".valsweep"] = func(t string) mck.Space { return valSweepSpace(v9, t) }
	}
}

type flowCase struct {
	V9   bool
	Tpls map[uint16]ref.Template
	Pre  []*ref.Msg // messages sent before (template announcements)
	Msg  *ref.Msg
	Desc string
	hash uint64
}

func hdrFor(v9 bool, nrec int) [5]uint32 {
	return [5]uint32{uint32(nrec), 0x01020304, 0x11121314, 0x21222324, 0x31323334}
}

// runFlowCase decodes and compares; returns the wire bytes for hashing.
func runFlowCase(c *mck.Ctx, fc *flowCase, sigPrefix string) []byte {
	caches := flowh.NewCaches()
	addr := flowh.AddrV4mapped
	for _, pm := range fc.Pre {
		flowh.Decode(fc.V9, addr, pm.Encode(fc.Tpls), caches)
	}
	wire := fc.Msg.Encode(fc.Tpls)
	fc.hash = mck.Hash64(wire)
	for _, pm := range fc.Pre {
		fc.hash = fc.hash*31 + mck.Hash64(pm.Encode(fc.Tpls))
	}
	c.SetCase(func() interface{} { return describe(fc, wire) })
	d := flowh.Decode(fc.V9, addr, append([]byte{}, wire...), caches)
	want := fc.Msg.Expected(fc.Tpls)
	fail := func(cls, msg string) {
		c.Violation(sigPrefix+":"+cls, msg, describeGot(fc, wire, d))
	}
	if d.Nil {
		if len(want) > 0 || true {
			fail("rejected", fmt.Sprintf("well-formed message rejected: %v", d.Err))
		}
		return wire
	}
	if d.Err != nil {
		fail("error", fmt.Sprintf("well-formed message decoded with error: %v", d.Err))
		return wire
	}
	if d.Agent != addr.String() {
		fail("agent", "AgentID "+d.Agent)
	}
	var wh [6]uint32
	if fc.V9 {
		wh = [6]uint32{9, fc.Msg.Hdr[0] & 0xffff, fc.Msg.Hdr[1], fc.Msg.Hdr[2], fc.Msg.Hdr[3], fc.Msg.Hdr[4]}
	} else {
		wh = [6]uint32{10, uint32(len(wire)), fc.Msg.Hdr[1], fc.Msg.Hdr[2], fc.Msg.Hdr[3], 0}
	}
	if d.Hdr != wh {
		fail("header", fmt.Sprintf("header %v expected %v", d.Hdr, wh))
	}
	if cls, msg := flowh.CompareRecords(d.Records, want); cls != "" {
		fail(cls, msg)
	}
	c.Outcome(fmt.Sprintf("records=%d", len(d.Records)))
	return wire
}

func describe(fc *flowCase, wire []byte) interface{} {
	m := map[string]interface{}{"desc": fc.Desc, "v9": fc.V9, "wire": hex.EncodeToString(wire), "expected": flowh.DescribeRecords(fc.Msg.Expected(fc.Tpls))}
	var pre []string
	for _, p := range fc.Pre {
		pre = append(pre, hex.EncodeToString(p.Encode(fc.Tpls)))
	}
	m["earlier_messages"] = pre
	return m
}

func describeGot(fc *flowCase, wire []byte, d flowh.Decoded) interface{} {
	m := describe(fc, wire).(map[string]interface{})
	m["got"] = flowh.DescribeRecords(d.Records)
	m["err"] = fmt.Sprint(d.Err)
	return m
}

// tplSpace: templates of 1..maxF kinds x scope split x #records x padding x value pattern x template placement.
func tplSpace(v9 bool, kinds []flowh.Kind, maxF int, pad8 bool) mck.Space {
	K := uint64(len(kinds))
	dims := mck.Radix{K}
	for i := 1; i < maxF; i++ {
		dims = append(dims, K+1)
	}
	dims = append(dims, uint64(maxF+1), 3, 4, 4, 2) // split, nrec, pad, pattern, where
	name := "ipfix"
	if v9 {
		name = "v9"
	}
	return mck.FuncSpace{N: dims.Size(), F: func(idx uint64, c *mck.Ctx) {
		d := dims.Digits(idx)
		var ks []flowh.Kind
		ks = append(ks, kinds[d[0]])
		ended := false
		for i := 1; i < maxF; i++ {
			if d[i] == 0 {
				ended = true
				continue
			}
			if ended {
				c.Skip()
				return
			}
			ks = append(ks, kinds[d[i]-1])
		}
		split, nrec, pad, pattern, where := d[maxF], d[maxF+1]+1, d[maxF+2], d[maxF+3], d[maxF+4]
		if split > len(ks) {
			c.Skip()
			return
		}
		if pad8 {
			pad += 4
		}
		t := ref.Template{ID: 256 + uint16(idx%7)}
		for i, k := range ks {
			if i < split {
				t.Scope = append(t.Scope, k.F)
			} else {
				t.Fields = append(t.Fields, k.F)
			}
		}
		t.Options = split > 0
		if pad >= t.MinRecordLen() { // RFC 7011 3.3.1: padding shorter than any allowable record
			c.Skip()
			return
		}
		tpls := map[uint16]ref.Template{t.ID: t}
		var recs []ref.Record
		for r := 0; r < nrec; r++ {
			var rec ref.Record
			for f, k := range ks {
				rec = append(rec, flowh.FillValue(k, pattern, r, f))
			}
			recs = append(recs, rec)
		}
		tset := ref.Set{Kind: ref.SetTemplates, Templates: []ref.Template{t}}
		if v9 && t.Options {
			// RFC 3954 6.1: options template flowset padded to a 32-bit boundary (6-octet record header)
			tset.Pad = 2
		}
		dset := ref.Set{Kind: ref.SetData, TemplateID: t.ID, Records: recs, Pad: pad}
		fc := &flowCase{V9: v9, Tpls: tpls}
		if where == 0 {
			fc.Pre = []*ref.Msg{{V9: v9, Hdr: hdrFor(v9, 1), Sets: []ref.Set{tset}}}
			fc.Msg = &ref.Msg{V9: v9, Hdr: hdrFor(v9, nrec), Sets: []ref.Set{dset}}
		} else {
			fc.Msg = &ref.Msg{V9: v9, Hdr: hdrFor(v9, nrec+1), Sets: []ref.Set{tset, dset}}
		}
		if c.Replay || c.WantSample() {
			s := ""
			for _, k := range ks {
				s += k.Name + " "
			}
			fc.Desc = fmt.Sprintf("fields=[%s] scope=%d records=%d pad=%d pattern=%d template_in_same_message=%v", s, split, nrec, pad, pattern, where == 1)
		}
		wire := runFlowCase(c, fc, name+":records")
		c.Nontrivial(fc.hash)
		c.Sample(func() interface{} { return describe(fc, wire) })
	}}
}

// twoSetSpace: two templates (1..2 fields each over the small alphabet), two data sets in one message, either order, 1..2 records each.
func twoSetSpace(v9 bool, kinds []flowh.Kind) mck.Space {
	K := uint64(len(kinds))
	dims := mck.Radix{K, K + 1, K, K + 1, 2, 2, 2, 2} // a1 a2 b1 b2 nrecA nrecB order pattern
	name := "ipfix"
	if v9 {
		name = "v9"
	}
	return mck.FuncSpace{N: dims.Size(), F: func(idx uint64, c *mck.Ctx) {
		d := dims.Digits(idx)
		mk := func(id uint16, k1, k2 int) (ref.Template, []flowh.Kind) {
			ks := []flowh.Kind{kinds[k1]}
			if k2 > 0 {
				ks = append(ks, kinds[k2-1])
			}
			t := ref.Template{ID: id}
			for _, k := range ks {
				t.Fields = append(t.Fields, k.F)
			}
			return t, ks
		}
		ta, ka := mk(300, d[0], d[1])
		tb, kb := mk(301, d[2], d[3])
		recs := func(ks []flowh.Kind, n, base int) []ref.Record {
			var out []ref.Record
			for r := 0; r < n; r++ {
				var rec ref.Record
				for f, k := range ks {
					rec = append(rec, flowh.FillValue(k, d[7]*0, r+base, f))
				}
				out = append(out, rec)
			}
			return out
		}
		sa := ref.Set{Kind: ref.SetData, TemplateID: 300, Records: recs(ka, d[4]+1, 0)}
		sb := ref.Set{Kind: ref.SetData, TemplateID: 301, Records: recs(kb, d[5]+1, 2)}
		tpls := map[uint16]ref.Template{300: ta, 301: tb}
		sets := []ref.Set{sa, sb}
		if d[6] == 1 {
			sets = []ref.Set{sb, sa}
		}
		fc := &flowCase{V9: v9, Tpls: tpls}
		tset := ref.Set{Kind: ref.SetTemplates, Templates: []ref.Template{ta, tb}}
		if d[7] == 0 {
			fc.Pre = []*ref.Msg{{V9: v9, Hdr: hdrFor(v9, 2), Sets: []ref.Set{tset}}}
			fc.Msg = &ref.Msg{V9: v9, Hdr: hdrFor(v9, 4), Sets: sets}
		} else {
			fc.Msg = &ref.Msg{V9: v9, Hdr: hdrFor(v9, 6), Sets: append([]ref.Set{tset}, sets...)}
		}
		fc.Desc = fmt.Sprintf("two data sets: A=%v B=%v order=%d same_msg=%d", kindNames(ka), kindNames(kb), d[6], d[7])
		wire := runFlowCase(c, fc, name+":records")
		c.Nontrivial(fc.hash)
		c.Sample(func() interface{} { return describe(fc, wire) })
	}}
}

func kindNames(ks []flowh.Kind) []string {
	var s []string
	for _, k := range ks {
		s = append(s, k.Name)
	}
	return s
}

// allElemSpace: every element of the information model as a single-field template, in
// each encoding class, 2 records, 4 value patterns.
// loadedElemSpace: the same sweep after the information model has been REPLACED through the real
// ipfix.LoadExtElements (the collector does this at start-up when <config dir>/ipfix.elements exists):
// the file written here holds every element of the model in force, every fifth one re-typed, plus the
// harness's private elements. Decoding (IPFIX and NetFlow v9 share the model) must follow the model
// in force, not the one compiled in.
func loadedElemSpace(v9 bool) mck.Space {
	flowh.InstallExtra()
	typeNames := []string{"octetArray", "unsigned8", "unsigned16", "unsigned32", "unsigned64", "signed8", "signed16", "signed32", "signed64", "float32", "float64",
		"boolean", "macAddress", "string", "dateTimeSeconds", "dateTimeMilliseconds", "dateTimeMicroseconds", "dateTimeNanoseconds", "ipv4Address", "ipv6Address"}
	var known []string
	for _, n := range typeNames {
		if _, ok := ipfix.FieldTypes[n]; ok {
			known = append(known, n)
		}
	}
	nameOf := func(t ipfix.FieldType) int {
		for i, n := range known {
			if ipfix.FieldTypes[n] == t {
				return i
			}
		}
		return -1
	}
	keys := flowh.ModelKeys()
	want := map[[2]int]ipfix.FieldType{}
	var sb strings.Builder
	lastPEN := -1
	retyped := 0
	for i, k := range keys {
		e := ipfix.InfoModel[ipfix.ElementKey{EnterpriseNo: uint32(k[0]), ElementID: uint16(k[1])}]
		ti := nameOf(e.Type)
		if ti < 0 {
			continue // an element of a type without a name cannot be written to the file
		}
		if i%5 == 2 {
			ti = (ti + 1 + i%7) % len(known)
			retyped++
		}
		if k[0] != lastPEN {
			fmt.Fprintf(&sb, "%d:\n", k[0])
			lastPEN = k[0]
		}
		fmt.Fprintf(&sb, "  %d:\n  - e%d\n  - %s\n", k[1], k[1], known[ti])
		want[k] = ipfix.FieldTypes[known[ti]]
	}
	dir, err := os.MkdirTemp(os.Getenv("VERIF_TMP"), "loadedmodel")
	if err != nil {
		panic(err)
	}
	if err := os.WriteFile(filepath.Join(dir, "ipfix.elements"), []byte(sb.String()), 0644); err != nil {
		panic(err)
	}
	lerr := ipfix.LoadExtElements(dir)
	os.RemoveAll(dir)
	mismatch := ""
	if lerr != nil {
		mismatch = "LoadExtElements: " + lerr.Error()
	} else if len(ipfix.InfoModel) != len(want) {
		mismatch = fmt.Sprintf("%d elements in the file, %d in the model after loading", len(want), len(ipfix.InfoModel))
	} else {
		for k, t := range want {
			if ipfix.InfoModel[ipfix.ElementKey{EnterpriseNo: uint32(k[0]), ElementID: uint16(k[1])}].Type != t {
				mismatch = fmt.Sprintf("element %d/%d does not have the type the file gives it", k[0], k[1])
				break
			}
		}
	}
	inner := elemSpace(v9, "loaded-model")
	if mismatch != "" || retyped == 0 {
		return mck.FuncSpace{N: 1, F: func(idx uint64, c *mck.Ctx) {
			c.Violation("model:load-mismatch", "the model in force after ipfix.LoadExtElements is not the file's: "+mismatch, map[string]interface{}{"elements": len(want), "retyped": retyped})
		}}
	}
	return inner
}

func allElemSpace(v9 bool) mck.Space {
	flowh.InstallExtra()
	return elemSpace(v9, "records")
}

func elemSpace(v9 bool, label string) mck.Space {
	type ek struct {
		pen uint32
		id  uint16
	}
	var keys []ek
	for pen := range map[uint32]bool{0: true, flowh.PEN: true} {
		_ = pen
	}
	all := flowh.ModelKeys()
	for _, k := range all {
		if v9 && k[0] != 0 {
			continue
		}
		keys = append(keys, ek{uint32(k[0]), uint16(k[1])})
	}
	dims := mck.Radix{uint64(len(keys)), 3, 4}
	name := "ipfix"
	if v9 {
		name = "v9"
	}
	return mck.FuncSpace{N: dims.Size(), F: func(idx uint64, c *mck.Ctx) {
		d := dims.Digits(idx)
		k := keys[d[0]]
		at := flowh.TypeOf(k.pen, k.id)
		nat := at.NaturalLen()
		kind := flowh.Kind{Name: fmt.Sprintf("%d/%d", k.pen, k.id), F: ref.Field{ID: k.id, PEN: k.pen, Type: at}}
		switch d[1] {
		case 0: // natural / fixed
			if nat > 0 {
				kind.F.Len = uint16(nat)
			} else {
				kind.F.Len = 6
			}
		case 1: // reduced size
			if nat < 2 {
				c.Skip()
				return
			}
			kind.F.Len = uint16(nat - 1)
		case 2: // variable length
			if v9 || (at != ref.TString && at != ref.TOctetArray) {
				c.Skip()
				return
			}
			kind.F.Len = 65535
			kind.VarLen = 7
		}
		t := ref.Template{ID: 400, Fields: []ref.Field{kind.F}}
		tpls := map[uint16]ref.Template{400: t}
		recs := []ref.Record{{flowh.FillValue(kind, d[2], 0, 0)}, {flowh.FillValue(kind, d[2], 1, 0)}}
		fc := &flowCase{V9: v9, Tpls: tpls, Desc: fmt.Sprintf("element %d/%d type %s len %d pattern %d", k.pen, k.id, ref.ATypeNames[at], kind.F.Len, d[2])}
		fc.Pre = []*ref.Msg{{V9: v9, Hdr: hdrFor(v9, 1), Sets: []ref.Set{{Kind: ref.SetTemplates, Templates: []ref.Template{t}}}}}
		fc.Msg = &ref.Msg{V9: v9, Hdr: hdrFor(v9, 2), Sets: []ref.Set{{Kind: ref.SetData, TemplateID: 400, Records: recs}}}
		wire := runFlowCase(c, fc, name+":"+label)
		c.Nontrivial(fc.hash)
		c.Sample(func() interface{} { return describe(fc, wire) })
	}}
}

// countsSpace: how MANY - records in a set, fields in a template, data sets in a message, templates in a
// template set, and (IPFIX) variable-length values whose length differs from record to record - with N
// around the small powers of two and other plausible limits. Whatever a decoder pre-sizes, caps or
// memoises per message / per set / per template shows here and nowhere in the small-shape spaces.
func countsSpace(v9 bool, tier string) mck.Space {
	kinds := flowh.Kinds(v9, true)
	var fixed []flowh.Kind
	var vstr *flowh.Kind
	for i, k := range kinds {
		if k.F.Len != 65535 && k.F.Len >= 1 && k.F.Len <= 8 && k.F.PEN == 0 {
			fixed = append(fixed, k)
		}
		if k.F.Len == 65535 && k.F.Type == ref.TString && vstr == nil {
			vstr = &kinds[i]
		}
	}
	counts := []int{1, 2, 3, 4, 7, 8, 9, 15, 16, 17, 18, 31, 32, 33, 63, 64, 65, 100, 127, 128, 129, 255, 256, 257, 511, 512, 513, 1000, 1023, 1024, 1025, 4000}
	if tier == "thorough" {
		counts = nil
		for n := 1; n <= 1100; n++ {
			counts = append(counts, n)
		}
		counts = append(counts, 2047, 2048, 2049, 4000, 4095, 4096, 4097)
	}
	modes := []string{"records", "fields", "sets", "templates", "varlen", "template-id", "field-length"}
	dims := mck.Radix{uint64(len(modes)), uint64(len(counts)), 2}
	var oct *flowh.Kind
	for i, k := range kinds {
		if k.F.Type == ref.TOctetArray && k.F.Len != 65535 && oct == nil {
			oct = &kinds[i]
		}
	}
	name := "ipfix"
	if v9 {
		name = "v9"
	}
	return mck.FuncSpace{N: dims.Size(), F: func(idx uint64, c *mck.Ctx) {
		d := dims.Digits(idx)
		mode, n, same := modes[d[0]], counts[d[1]], d[2] == 1
		tpls := map[uint16]ref.Template{}
		var tsets, dsets []ref.Set
		rec := func(ks []flowh.Kind, r int) ref.Record {
			var out ref.Record
			for f, k := range ks {
				out = append(out, flowh.FillValue(k, 0, r, f))
			}
			return out
		}
		switch mode {
		case "records":
			ks := []flowh.Kind{fixed[0], fixed[1%len(fixed)]}
			t := ref.Template{ID: 300, Fields: []ref.Field{ks[0].F, ks[1].F}}
			tpls[300] = t
			var rs []ref.Record
			for r := 0; r < n; r++ {
				rs = append(rs, rec(ks, r))
			}
			tsets = []ref.Set{{Kind: ref.SetTemplates, Templates: []ref.Template{t}}}
			dsets = []ref.Set{{Kind: ref.SetData, TemplateID: 300, Records: rs}}
		case "fields":
			var ks []flowh.Kind
			t := ref.Template{ID: 300}
			for i := 0; i < n; i++ {
				k := fixed[i%len(fixed)]
				ks = append(ks, k)
				t.Fields = append(t.Fields, k.F)
			}
			tpls[300] = t
			tsets = []ref.Set{{Kind: ref.SetTemplates, Templates: []ref.Template{t}}}
			dsets = []ref.Set{{Kind: ref.SetData, TemplateID: 300, Records: []ref.Record{rec(ks, 0), rec(ks, 1)}}}
		case "sets":
			ka, kb := []flowh.Kind{fixed[0]}, []flowh.Kind{fixed[1%len(fixed)], fixed[2%len(fixed)]}
			ta := ref.Template{ID: 300, Fields: []ref.Field{ka[0].F}}
			tb := ref.Template{ID: 301, Fields: []ref.Field{kb[0].F, kb[1].F}}
			tpls[300], tpls[301] = ta, tb
			tsets = []ref.Set{{Kind: ref.SetTemplates, Templates: []ref.Template{ta, tb}}}
			for i := 0; i < n; i++ {
				if i%2 == 0 {
					dsets = append(dsets, ref.Set{Kind: ref.SetData, TemplateID: 300, Records: []ref.Record{rec(ka, i)}})
				} else {
					dsets = append(dsets, ref.Set{Kind: ref.SetData, TemplateID: 301, Records: []ref.Record{rec(kb, i)}})
				}
			}
		case "templates":
			var ts []ref.Template
			for i := 0; i < n; i++ {
				k := fixed[i%len(fixed)]
				t := ref.Template{ID: uint16(256 + i), Fields: []ref.Field{k.F, fixed[(i+1)%len(fixed)].F}}
				ts = append(ts, t)
				tpls[t.ID] = t
			}
			tsets = []ref.Set{{Kind: ref.SetTemplates, Templates: ts}}
			for _, i := range []int{0, n / 2, n - 1} {
				ks := []flowh.Kind{fixed[i%len(fixed)], fixed[(i+1)%len(fixed)]}
				dsets = append(dsets, ref.Set{Kind: ref.SetData, TemplateID: uint16(256 + i), Records: []ref.Record{rec(ks, i)}})
			}
		case "template-id": // N is the template id itself: the smallest, the largest and those around the 15/16-bit boundaries
			ids := map[int]bool{256: true, 257: true, 511: true, 512: true, 513: true, 1000: true, 1023: true, 1024: true, 1025: true, 4000: true}
			id := n
			switch n { // reuse the slots of the small counts for the large ids
			case 1:
				id = 32767
			case 2:
				id = 32768
			case 3:
				id = 65534
			case 4:
				id = 65535
			case 7:
				id = 16384
			}
			if !ids[n] && id == n {
				c.Skip()
				return
			}
			ks := []flowh.Kind{fixed[0], fixed[1%len(fixed)]}
			t := ref.Template{ID: uint16(id), Fields: []ref.Field{ks[0].F, ks[1].F}}
			tpls[t.ID] = t
			tsets = []ref.Set{{Kind: ref.SetTemplates, Templates: []ref.Template{t}}}
			dsets = []ref.Set{{Kind: ref.SetData, TemplateID: t.ID, Records: []ref.Record{rec(ks, 0), rec(ks, 1)}}}
		case "field-length": // one fixed-length octet-array field of N octets in front of an integer
			if oct == nil || n > 30000 {
				c.Skip()
				return
			}
			big := *oct
			big.F.Len = uint16(n)
			ks := []flowh.Kind{big, fixed[0]}
			t := ref.Template{ID: 300, Fields: []ref.Field{big.F, fixed[0].F}}
			tpls[300] = t
			tsets = []ref.Set{{Kind: ref.SetTemplates, Templates: []ref.Template{t}}}
			dsets = []ref.Set{{Kind: ref.SetData, TemplateID: 300, Records: []ref.Record{rec(ks, 0), rec(ks, 1)}}}
		case "varlen":
			if v9 || vstr == nil {
				c.Skip()
				return
			}
			t := ref.Template{ID: 300, Fields: []ref.Field{vstr.F, fixed[0].F}}
			tpls[300] = t
			lens := []int{9, 0, 1, 3, 254, 255, 256, 2, 300, 7}
			var rs []ref.Record
			total := 0
			for r := 0; r < n; r++ {
				l := lens[r%len(lens)]
				b := make([]byte, l)
				for i := range b {
					b[i] = byte('a' + (i+r)%26)
				}
				total += l + 3 + int(fixed[0].F.Len)
				rs = append(rs, ref.Record{ref.Value{Raw: b}, flowh.FillValue(fixed[0], 0, r, 1)})
			}
			if total > 60000 {
				c.Skip()
				return
			}
			tsets = []ref.Set{{Kind: ref.SetTemplates, Templates: []ref.Template{t}}}
			dsets = []ref.Set{{Kind: ref.SetData, TemplateID: 300, Records: rs}}
		}
		fc := &flowCase{V9: v9, Tpls: tpls, Desc: fmt.Sprintf("%s = %d, templates in the same message = %v", mode, n, same)}
		nrec := 0
		for _, s := range dsets {
			nrec += len(s.Records)
		}
		if same {
			fc.Msg = &ref.Msg{V9: v9, Hdr: hdrFor(v9, nrec+len(tpls)), Sets: append(append([]ref.Set{}, tsets...), dsets...)}
		} else {
			fc.Pre = []*ref.Msg{{V9: v9, Hdr: hdrFor(v9, len(tpls)), Sets: tsets}}
			fc.Msg = &ref.Msg{V9: v9, Hdr: hdrFor(v9, nrec), Sets: dsets}
		}
		if len(fc.Msg.Encode(tpls)) > 65000 || (len(fc.Pre) > 0 && len(fc.Pre[0].Encode(tpls)) > 65000) {
			c.Skip()
			return
		}
		runFlowCase(c, fc, name+":counts:"+mode)
		c.Nontrivial(fc.hash)
		if idx%37 == 0 {
			c.Sample(func() interface{} { return map[string]interface{}{"desc": fc.Desc, "v9": v9} })
		}
	}}
}

// typeInfoSpace: an exporter sends RFC 5610 "information element type" option records (scope informationElementId
// [+ privateEnterpriseNumber]; fields informationElementDataType, informationElementSemantics,
// informationElementName) that CLAIM another data type for an element the collector's model already defines.
// For every element of the model: the record itself is ordinary option data and decodes as such; afterwards a
// template using that element - from the same and from another exporter, IPFIX and NetFlow v9 - still decodes
// by the collector's model, and the model entry is what it was.
func typeInfoSpace(v9 bool) mck.Space {
	flowh.InstallExtra()
	need := map[string]uint16{"id": 303, "type": 339, "sem": 344, "name": 341, "pen": 346}
	for _, id := range need {
		if _, ok := ipfix.InfoModel[ipfix.ElementKey{EnterpriseNo: 0, ElementID: id}]; !ok {
			return mck.FuncSpace{N: 1, F: func(idx uint64, c *mck.Ctx) { c.Skip() }}
		}
	}
	var keys [][2]int
	for _, k := range flowh.ModelKeys() {
		if k[0] == 0 {
			keys = append(keys, k)
		}
	}
	fld := func(id uint16, l uint16) ref.Field { return ref.Field{ID: id, Len: l, Type: flowh.TypeOf(0, id)} }
	dims := mck.Radix{uint64(len(keys)), 2, 2}
	name := "ipfix"
	if v9 {
		name = "v9"
	}
	return mck.FuncSpace{N: dims.Size(), F: func(idx uint64, c *mck.Ctx) {
		d := dims.Digits(idx)
		x := uint16(keys[d[0]][1])
		before := ipfix.InfoModel[ipfix.ElementKey{EnterpriseNo: 0, ElementID: x}]
		at := flowh.TypeOf(0, x)
		claimed := byte((int(before.Type) + 1 + d[0]%5) % 20)
		// 1. the type-information record (always IPFIX: RFC 5610 is an IPFIX mechanism), from exporter A
		opt := ref.Template{ID: 500, Options: true, Scope: []ref.Field{fld(need["id"], 2)}, Fields: []ref.Field{fld(need["type"], 1), fld(need["sem"], 1), fld(need["name"], 65535)}}
		rec := ref.Record{{Raw: []byte{byte(x >> 8), byte(x)}}, {Raw: []byte{claimed}}, {Raw: []byte{0}}, {Raw: []byte("renamedByExporter")}}
		if d[1] == 1 {
			opt.Scope = append(opt.Scope, fld(need["pen"], 4))
			rec = ref.Record{rec[0], {Raw: []byte{0, 0, 0, 0}}, rec[1], rec[2], rec[3]}
		}
		caches := flowh.NewCaches()
		ti := &ref.Msg{Hdr: hdrFor(false, 2), Sets: []ref.Set{{Kind: ref.SetTemplates, Templates: []ref.Template{opt}}, {Kind: ref.SetData, TemplateID: 500, Records: []ref.Record{rec}}}}
		tpls := map[uint16]ref.Template{500: opt}
		dti := flowh.Decode(false, flowh.AddrV4mapped, ti.Encode(tpls), caches)
		desc := func() interface{} {
			return map[string]interface{}{"element": x, "type_in_the_model": ref.ATypeNames[at], "type_code_claimed_by_the_record": claimed, "scope_with_enterprise_number": d[1] == 1, "data_from_another_exporter": d[2] == 1, "data_protocol": name}
		}
		c.SetCase(desc)
		c.Nontrivial(mck.HashStr(name, fmt.Sprint(x, d[1], d[2])))
		if cls, msg := flowh.CompareRecords(dti.Records, ti.Expected(tpls)); cls != "" || dti.Nil {
			c.Violation("ipfix:typeinfo:record:"+cls, "the type-information record is ordinary option data: "+msg, desc())
			return
		}
		// 2. data for a template using that element
		kind := flowh.Kind{Name: fmt.Sprint(x), F: ref.Field{ID: x, Type: at}}
		if n := at.NaturalLen(); n > 0 {
			kind.F.Len = uint16(n)
		} else {
			kind.F.Len = 6
		}
		t := ref.Template{ID: 400, Fields: []ref.Field{kind.F}}
		addr := flowh.AddrV4mapped
		if d[2] == 1 {
			addr = flowh.AddrV6
		}
		m := &ref.Msg{V9: v9, Hdr: hdrFor(v9, 3), Sets: []ref.Set{{Kind: ref.SetTemplates, Templates: []ref.Template{t}}, {Kind: ref.SetData, TemplateID: 400, Records: []ref.Record{{flowh.FillValue(kind, 0, 0, 0)}, {flowh.FillValue(kind, 1, 1, 0)}}}}}
		t2 := map[uint16]ref.Template{400: t}
		dd := flowh.Decode(v9, addr, m.Encode(t2), caches)
		if cls, msg := flowh.CompareRecords(dd.Records, m.Expected(t2)); cls != "" {
			dsc := desc().(map[string]interface{})
			dsc["got"] = flowh.DescribeRecords(dd.Records)
			c.Violation(name+":typeinfo:decode-changed:"+cls, "after an exporter's type-information record the element is no longer decoded by the collector's model: "+msg, dsc)
		}
		if after := ipfix.InfoModel[ipfix.ElementKey{EnterpriseNo: 0, ElementID: x}]; after != before {
			c.Violation(name+":typeinfo:model-changed", fmt.Sprintf("the model entry of element %d changed from %+v to %+v", x, before, after), desc())
			ipfix.InfoModel[ipfix.ElementKey{EnterpriseNo: 0, ElementID: x}] = before // keep later cases independent
		}
		c.Outcome("unchanged")
		if idx%211 == 0 {
			c.Sample(desc)
		}
	}}
}

// valSweepSpace: EVERY value of elements whose natural size is one or two octets (quick: the first element of
// each such type and the well-known 16-bit ones - ports, AS numbers, VLAN ids, ICMP type/code; thorough: every
// such element of the model) in front of an ordinary field. A value that is singled out for special treatment
// shows only when that very value is tried.
func valSweepSpace(v9 bool, tier string) mck.Space {
	flowh.InstallExtra()
	well := map[uint16]bool{4: true, 5: true, 6: true, 7: true, 11: true, 16: true, 17: true, 32: true, 58: true, 59: true, 9: true, 13: true}
	by := flowh.ElemByType()
	first := map[uint16]bool{}
	for _, id := range by {
		first[id] = true
	}
	type el struct {
		id uint16
		n  int
	}
	var els []el
	for _, k := range flowh.ModelKeys() {
		if k[0] != 0 || k[1] >= 30000 {
			continue
		}
		id := uint16(k[1])
		if n := flowh.TypeOf(0, id).NaturalLen(); n == 1 || n == 2 {
			if tier == "thorough" || well[id] || first[id] {
				els = append(els, el{id, n})
			}
		}
	}
	f2 := ref.Field{ID: by[ref.TU32], Len: 4, Type: ref.TU32}
	dims := mck.Radix{uint64(len(els)), 65536}
	name := "ipfix"
	if v9 {
		name = "v9"
	}
	return mck.FuncSpace{N: dims.Size(), F: func(idx uint64, c *mck.Ctx) {
		d := dims.Digits(idx)
		e := els[d[0]]
		if e.n == 1 && d[1] > 255 {
			c.Skip()
			return
		}
		at := flowh.TypeOf(0, e.id)
		if at == ref.TBool && d[1] != 1 && d[1] != 2 {
			c.Skip() // well-formed booleans are 1 and 2
			return
		}
		raw := []byte{byte(d[1])}
		if e.n == 2 {
			raw = []byte{byte(d[1] >> 8), byte(d[1])}
		}
		t := ref.Template{ID: 300, Fields: []ref.Field{{ID: e.id, Len: uint16(e.n), Type: at}, f2}}
		tpls := map[uint16]ref.Template{300: t}
		fc := &flowCase{V9: v9, Tpls: tpls, Desc: fmt.Sprintf("element %d (%s) = %d", e.id, ref.ATypeNames[at], d[1])}
		fc.Msg = &ref.Msg{V9: v9, Hdr: hdrFor(v9, 2), Sets: []ref.Set{{Kind: ref.SetTemplates, Templates: []ref.Template{t}}, {Kind: ref.SetData, TemplateID: 300, Records: []ref.Record{{{Raw: raw}, {Raw: []byte{1, 2, 3, 4}}}}}}}
		runFlowCase(c, fc, name+":valsweep")
		c.Nontrivial(fc.hash)
	}}
}

// flow: IPFIX / NetFlow v9 decoder checks (C03, C06, C09, C04, C05 and the flow part of C01/C02).
package main

import "github.com/EdgeCast/vflow/zzverif/mck"

var spaces = map[string]func(string) mck.Space{}

func main() { mck.Main(spaces) }

package main

import (
	"bytes"
	"encoding/hex"
	"encoding/json"
	"fmt"
	"math"
	"net"
	"strconv"
	"strings"
	"unicode/utf8"

	"github.com/EdgeCast/vflow/ipfix"
	"github.com/EdgeCast/vflow/zzverif/flowh"
	"github.com/EdgeCast/vflow/zzverif/mck"
	"github.com/EdgeCast/vflow/zzverif/ref"
)

// C05: every published message is valid JSON that faithfully carries the decode.

func init() {
	for _, v9 := range []bool{false, true} {
		v9 := v9
		p := "ipfix"
		if v9 {
			p = "v9"
		}
		spaces[p+".json.pos"] = func(t string) mck.Space { return jsonPosSpace(v9) }
		spaces[p+".json.pairs"] = func(t string) mck.Space { return jsonPairSpace(v9) }
		spaces[p+".json.shape"] = func(t string) mck.Space { return jsonShapeSpace(v9) }
		spaces[p+".json.triples"] = func(t string) mck.Space { return jsonTripleSpace(v9) }
		spaces[p+".json.mixed"] = func(t string) mck.Space { return jsonMixedSpace(v9) }
		spaces[p+".json.counts"] = func(t string) mck.Space { return jsonCountsSpace(v9, t) }
		spaces[p+".json.allelems"] = func(t string) mck.Space { return jsonAllElemSpace(v9) }
	}
}

type jval struct {
	name string
	k    flowh.Kind
	raw  []byte
}

const bigPEN = 4294967295

func jsonValues(v9 bool) []jval {
	flowh.InstallExtra()
	ipfix.InfoModel[ipfix.ElementKey{EnterpriseNo: bigPEN, ElementID: 1}] = ipfix.InfoElementEntry{FieldID: 1, Name: "verifBigPEN", Type: ipfix.Uint32}
	ipfix.InfoModel[ipfix.ElementKey{EnterpriseNo: 1, ElementID: 1}] = ipfix.InfoElementEntry{FieldID: 1, Name: "verifPEN1", Type: ipfix.String}
	by := flowh.ElemByType()
	var vs []jval
	fixed := func(name string, t ref.AType, id uint16, pen uint32, raw []byte) {
		vs = append(vs, jval{name, flowh.Kind{Name: name, F: ref.Field{ID: id, PEN: pen, Len: uint16(len(raw)), Type: t}}, raw})
	}
	variable := func(name string, t ref.AType, id uint16, pen uint32, raw []byte) {
		vs = append(vs, jval{name, flowh.Kind{Name: name, F: ref.Field{ID: id, PEN: pen, Len: 65535, Type: t}, VarLen: len(raw)}, raw})
	}
	str := func(name string, raw []byte) {
		if len(raw) > 0 {
			fixed("string:"+name, ref.TString, by[ref.TString], 0, raw)
		}
		if !v9 {
			variable("vstring:"+name, ref.TString, by[ref.TString], 0, raw)
		}
	}
	for c := 0; c < 32; c++ {
		str(fmt.Sprintf("ctl%02x", c), []byte{'a', byte(c), 'b'})
	}
	str("quote", []byte(`a"b`))
	str("backslash", []byte(`a\b`))
	str("backslash-end", []byte(`ab\`))
	str("slash", []byte(`a/b`))
	str("del", []byte{'a', 0x7f, 'b'})
	str("u2028", []byte("a b"))
	str("utf8-2", []byte("é"))
	str("utf8-3", []byte("€"))
	str("utf8-4", []byte("😀"))
	str("bad-cont", []byte{'a', 0x80, 'b'})
	str("bad-trunc", []byte{'a', 0xc3})
	str("bad-ff", []byte{0xff})
	str("bad-surrogate", []byte{0xed, 0xa0, 0x80})
	str("empty", []byte{})
	str("html", []byte("<a&b>"))
	str("long", bytes.Repeat([]byte("x"), 300))
	str("json-looking", []byte(`","V":1},{"I":9`))
	// text that already LOOKS escaped: the escape sequences an encoder itself produces, as literal characters
	// (a backslash followed by u0026 / u003c / u003e / n / " / \ / u2028); "un-escaping" passes go wrong on these
	str("lit-u0026", []byte(`R\u0026D`))
	str("lit-u003c", []byte(`a\u003cb\u003e`))
	str("lit-backslash-n", []byte(`a\nb`))
	str("lit-backslash-quote", []byte(`a\"b`))
	str("lit-two-backslashes", []byte(`a\\b`))
	str("lit-u2028", []byte(`a\u2028b`))
	str("percent", []byte(`100%s %d%%`))
	f64 := []uint64{0, 1 << 63, 0x7ff0000000000000, 0xfff0000000000000, 0x7ff8000000000001, 0x7ff0000000000001, 1, 0x000fffffffffffff, 0x7fefffffffffffff,
		math.Float64bits(1e21), math.Float64bits(1e-7), math.Float64bits(0.1), math.Float64bits(-123.456)}
	for _, b := range f64 {
		var raw [8]byte
		for i := 0; i < 8; i++ {
			raw[i] = byte(b >> (56 - 8*uint(i)))
		}
		fixed(fmt.Sprintf("float64:%016x", b), ref.TF64, by[ref.TF64], 0, raw[:])
	}
	f32 := []uint32{0, 1 << 31, 0x7f800000, 0xff800000, 0x7fc00001, 0x7f800001, 1, 0x007fffff, 0x7f7fffff, math.Float32bits(1e21), math.Float32bits(1e-7), math.Float32bits(0.1)}
	for _, b := range f32 {
		raw := []byte{byte(b >> 24), byte(b >> 16), byte(b >> 8), byte(b)}
		if v9 {
			fixed(fmt.Sprintf("float32:%08x", b), ref.TF32, 30005, 0, raw)
		} else {
			fixed(fmt.Sprintf("float32:%08x", b), ref.TF32, 5, flowh.PEN, raw)
		}
	}
	for _, b := range []byte{0, 1, 2, 255} {
		fixed(fmt.Sprintf("bool:%d", b), ref.TBool, by[ref.TBool], 0, []byte{b})
	}
	ints := []struct {
		t   ref.AType
		n   int
		eid uint16
	}{{ref.TU8, 1, 0}, {ref.TU16, 2, 0}, {ref.TU32, 4, 0}, {ref.TU64, 8, 0}, {ref.TI8, 1, 1}, {ref.TI16, 2, 2}, {ref.TI32, 4, 3}, {ref.TI64, 8, 4}, {ref.TDTSec, 4, 0}, {ref.TDTMilli, 8, 0}, {ref.TDTMicro, 8, 0}, {ref.TDTNano, 8, 0}}
	for _, it := range ints {
		for _, pat := range []string{"zero", "one", "max", "min"} {
			raw := make([]byte, it.n)
			switch pat {
			case "one":
				raw[it.n-1] = 1
			case "max":
				for i := range raw {
					raw[i] = 0xff
				}
				if it.eid != 0 {
					raw[0] = 0x7f
				}
			case "min":
				raw[0] = 0x80
			}
			id, pen := by[it.t], uint32(0)
			if it.eid != 0 {
				id, pen = it.eid, flowh.PEN
				if v9 {
					id, pen = 30000+it.eid, 0
				}
			}
			fixed(fmt.Sprintf("%s:%s", ref.ATypeNames[it.t], pat), it.t, id, pen, raw)
		}
	}
	fixed("mac:zero", ref.TMac, by[ref.TMac], 0, make([]byte, 6))
	fixed("mac:ones", ref.TMac, by[ref.TMac], 0, bytes.Repeat([]byte{0xff}, 6))
	fixed("mac:uniq", ref.TMac, by[ref.TMac], 0, []byte{0x02, 0x1a, 0x2b, 0x3c, 0x4d, 0x5e})
	fixed("ipv4:zero", ref.TIPv4, by[ref.TIPv4], 0, []byte{0, 0, 0, 0})
	fixed("ipv4:ones", ref.TIPv4, by[ref.TIPv4], 0, []byte{255, 255, 255, 255})
	fixed("ipv4:uniq", ref.TIPv4, by[ref.TIPv4], 0, []byte{10, 1, 2, 3})
	for n, s := range map[string]string{"unspec": "::", "loop": "::1", "mapped": "::ffff:1.2.3.4", "doc": "2001:db8::1", "ones": "ffff:ffff:ffff:ffff:ffff:ffff:ffff:ffff", "compat": "::1.2.3.4"} {
		fixed("ipv6:"+n, ref.TIPv6, by[ref.TIPv6], 0, []byte(net.ParseIP(s).To16()))
	}
	for l := 1; l <= 3; l++ {
		fixed(fmt.Sprintf("octets:%d", l), ref.TOctetArray, by[ref.TOctetArray], 0, []byte{0xde, 0xad, 0xbe}[:l])
	}
	if !v9 {
		variable("voctets:0", ref.TOctetArray, by[ref.TOctetArray], 0, []byte{})
		variable("voctets:2", ref.TOctetArray, by[ref.TOctetArray], 0, []byte{0x00, 0xff})
		fixed("pen-max:u32", ref.TU32, 1, bigPEN, []byte{1, 2, 3, 4})
		variable("pen-1:vstring", ref.TString, 1, 1, []byte("ent"))
		fixed("pen-harness:string", ref.TString, 7, flowh.PEN, []byte(`q"`))
	}
	fixed("reduced:u32@2", ref.TU32, by[ref.TU32], 0, []byte{0xab, 0xcd})
	fixed("reduced:f64@4", ref.TF64, by[ref.TF64], 0, []byte{0x7f, 0xc0, 0, 0})
	fixed("reduced:ipv6@4", ref.TIPv6, by[ref.TIPv6], 0, []byte{1, 2, 3, 4})
	if id, ok := by[ref.TUnknown]; ok {
		fixed("unknowntype", ref.TUnknown, id, 0, []byte{9, 8, 7, 6})
	}
	return vs
}

// exporter address forms; the last three differ from earlier ones only in PART of their octets (the same low 32
// bits as 2001:db8::7, the same low 32 bits as 192.0.2.1, the same high 96 bits as 2001:db8::7): whatever is
// remembered per exporter across messages must be keyed by the whole address
var jsonAddrs = []net.IP{net.ParseIP("192.0.2.1"), {192, 0, 2, 1}, net.ParseIP("2001:db8::7"), net.ParseIP("::ffff:10.0.0.1"),
	net.ParseIP("2001:db8:ffff::7"), net.ParseIP("2001:db8::c000:201"), net.ParseIP("2001:db8::8")}

// checkFlowJSON compares the published document with the expected tree.
func checkFlowJSON(v9 bool, out []byte, agent string, hdr [6]uint32, want [][]ref.ExpField) (string, string) {
	if !json.Valid(out) {
		return "invalid", "not a valid JSON document"
	}
	if !utf8.Valid(out) {
		return "invalid-utf8", "document is not valid UTF-8"
	}
	var doc map[string]interface{}
	dec := json.NewDecoder(bytes.NewReader(out))
	dec.UseNumber()
	if err := dec.Decode(&doc); err != nil {
		return "parse", err.Error()
	}
	if dec.More() {
		return "trailing", "more than one document"
	}
	// (keys the statement does not name may be present; the ones it names must be, with the decoded content)
	for _, k := range []string{"AgentID", "Header", "DataSets"} {
		if _, ok := doc[k]; !ok {
			return "top-keys", "no " + k
		}
	}
	if a, _ := doc["AgentID"].(string); a != agent {
		return "agent", fmt.Sprintf("AgentID %q, expected %q", doc["AgentID"], agent)
	}
	names := []string{"Version", "Length", "ExportTime", "SequenceNo", "DomainID"}
	if v9 {
		names = []string{"Version", "Count", "SysUpTime", "UNIXSecs", "SeqNum", "SrcID"}
	}
	h, _ := doc["Header"].(map[string]interface{})
	if len(h) < len(names) {
		return "header-keys", fmt.Sprint(h)
	}
	for i, n := range names {
		if x, _ := h[n].(json.Number); string(x) != fmt.Sprint(hdr[i]) {
			return "header." + n, fmt.Sprintf("%v expected %d", h[n], hdr[i])
		}
	}
	ds, ok := doc["DataSets"].([]interface{})
	if !ok || len(ds) != len(want) {
		return "dataset-count", fmt.Sprintf("%d records in JSON, expected %d", len(ds), len(want))
	}
	for i := range want {
		rec, ok := ds[i].([]interface{})
		if !ok || len(rec) != len(want[i]) {
			return "field-count", fmt.Sprintf("record %d", i)
		}
		for j, w := range want[i] {
			f, ok := rec[j].(map[string]interface{})
			if !ok {
				return "field-shape", fmt.Sprintf("record %d field %d", i, j)
			}
			if e, has := f["E"]; has && w.PEN == 0 {
				if x, _ := e.(json.Number); string(x) != "0" {
					return "field-keys", fmt.Sprintf("record %d field %d carries an enterprise number although the element has none: %v", i, j, f)
				}
			}
			if _, has := f["V"]; !has {
				return "field-keys", fmt.Sprintf("record %d field %d has no value: %v", i, j, f)
			}
			if x, _ := f["I"].(json.Number); string(x) != fmt.Sprint(w.ID) {
				return "field-id", fmt.Sprintf("record %d field %d: I=%v expected %d", i, j, f["I"], w.ID)
			}
			if w.PEN != 0 {
				if x, _ := f["E"].(json.Number); string(x) != fmt.Sprint(w.PEN) {
					return "field-enterprise", fmt.Sprintf("record %d field %d: E=%v expected %d", i, j, f["E"], w.PEN)
				}
			}
			if cls, msg := valueFaithful(f["V"], w.Value); cls != "" {
				return "value:" + cls, fmt.Sprintf("record %d field %d: %s", i, j, msg)
			}
		}
	}
	return "", ""
}

func floatClass(f float64) string {
	switch {
	case math.IsNaN(f):
		return "nan"
	case math.IsInf(f, 1):
		return "+inf"
	case math.IsInf(f, -1):
		return "-inf"
	}
	return "finite"
}

// valueFaithful: does the JSON value v carry the decoded value w?
func valueFaithful(v interface{}, w interface{}) (string, string) {
	numStr := func() (string, bool) {
		n, ok := v.(json.Number)
		return string(n), ok
	}
	switch x := w.(type) {
	case uint8, uint16, uint32, uint64, int8, int16, int32, int64:
		s, ok := numStr()
		if !ok || s != fmt.Sprint(x) {
			return "integer", fmt.Sprintf("V=%v expected %v", v, x)
		}
	case bool:
		b, ok := v.(bool)
		if !ok || b != x {
			return "boolean", fmt.Sprintf("V=%v expected %v", v, x)
		}
	case float32, float64:
		var want float64
		bits := 64
		if f, ok := x.(float32); ok {
			want, bits = float64(f), 32
		} else {
			want = x.(float64)
		}
		var got float64
		switch t := v.(type) {
		case json.Number:
			g, err := strconv.ParseFloat(string(t), bits)
			if err != nil && !math.IsInf(g, 0) {
				return "float", fmt.Sprintf("V=%v does not parse", v)
			}
			got = g
		case string: // non-finite values have no JSON number form: a string naming the class is accepted
			if floatClass(want) == "finite" {
				return "float", fmt.Sprintf("V=%q for finite %v", t, want)
			}
			g, err := strconv.ParseFloat(t, 64)
			if err != nil {
				return "float", fmt.Sprintf("V=%q does not name a float class", t)
			}
			got = g
		default:
			return "float", fmt.Sprintf("V=%v (%T) expected %v", v, v, want)
		}
		if floatClass(got) != floatClass(want) {
			return "float", fmt.Sprintf("V=%v expected %v", v, want)
		}
		if floatClass(want) == "finite" {
			if bits == 32 && math.Float32bits(float32(got)) != math.Float32bits(float32(want)) || bits == 64 && math.Float64bits(got) != math.Float64bits(want) {
				return "float", fmt.Sprintf("V=%v expected %v (bit-exact)", v, want)
			}
		}
	case string:
		s, ok := v.(string)
		if !ok {
			return "string", fmt.Sprintf("V=%v (%T) expected string %q", v, v, x)
		}
		if s != x && s != strings.ToValidUTF8(x, "�") && s != string([]rune(x)) {
			return "string", fmt.Sprintf("V=%q expected %q", s, x)
		}
	case net.IP:
		s, ok := v.(string)
		p := net.ParseIP(s)
		if !ok || p == nil || !p.Equal(x) {
			return "address", fmt.Sprintf("V=%v expected %v", v, x)
		}
		if s != x.String() {
			return "address-form", fmt.Sprintf("V=%q is not the canonical text %q", s, x.String())
		}
	case net.HardwareAddr:
		s, ok := v.(string)
		p, err := net.ParseMAC(s)
		if !ok || err != nil || !bytes.Equal(p, x) {
			return "mac", fmt.Sprintf("V=%v expected %v", v, x)
		}
	case []byte:
		s, ok := v.(string)
		if !ok || !strings.HasPrefix(s, "0x") {
			return "octets", fmt.Sprintf("V=%v expected 0x%x", v, x)
		}
		b, err := hex.DecodeString(s[2:])
		if err != nil || !bytes.Equal(b, x) {
			return "octets", fmt.Sprintf("V=%v expected 0x%x", v, x)
		}
	default:
		return "type", fmt.Sprintf("unexpected reference type %T", w)
	}
	return "", ""
}

type jsonCase struct {
	v9    bool
	addr  net.IP
	tpl   ref.Template
	recs  []ref.Record
	nsets int
	desc  string
	tag   string // value class for violation signatures
}

// runJSONCase: decode with the real decoder, marshal with the real encoder, compare.
func runJSONCase(c *mck.Ctx, jc *jsonCase) {
	tpls := map[uint16]ref.Template{jc.tpl.ID: jc.tpl}
	sets := []ref.Set{{Kind: ref.SetTemplates, Templates: []ref.Template{jc.tpl}}}
	if jc.v9 && jc.tpl.Options {
		sets[0].Pad = (4 - (6+4*len(jc.tpl.All()))%4) % 4
	}
	for s := 0; s < jc.nsets; s++ {
		sets = append(sets, ref.Set{Kind: ref.SetData, TemplateID: jc.tpl.ID, Records: jc.recs})
	}
	m := &ref.Msg{V9: jc.v9, Hdr: hdrFor(jc.v9, 1+jc.nsets*len(jc.recs)), Sets: sets}
	wire := m.Encode(tpls)
	want := m.Expected(tpls)
	desc := func() interface{} {
		return map[string]interface{}{"desc": jc.desc, "v9": jc.v9, "exporter": jc.addr.String(), "addr_len": len(jc.addr), "wire": hex.EncodeToString(wire), "expected": flowh.DescribeRecords(want)}
	}
	c.SetCase(desc)
	c.Nontrivial(mck.Hash64(wire, jc.addr))
	d := flowh.Decode(jc.v9, jc.addr, append([]byte{}, wire...), flowh.NewCaches())
	sig := "ipfix:json:"
	if jc.v9 {
		sig = "v9:json:"
	}
	if jc.tag != "" {
		sig += jc.tag + ":"
	}
	if d.Nil || d.Err != nil {
		c.Violation(sig+"decode-failed", fmt.Sprint(d.Err), desc())
		return
	}
	if cls, msg := flowh.CompareRecords(d.Records, want); cls != "" {
		c.Violation(sig+"decode-mismatch:"+cls, msg, desc())
		return
	}
	var out []byte
	var err error
	buf := new(bytes.Buffer)
	if d.IPFIX != nil {
		out, err = d.IPFIX.JSONMarshal(buf)
	} else {
		out, err = d.V9.JSONMarshal(buf)
	}
	if err != nil {
		// nothing is published: not a C05 matter (a decodable datagram that is not published is C13's) but recorded
		c.Outcome("marshal-error")
		dd := desc().(map[string]interface{})
		dd["error"] = err.Error()
		c.Violation(sig+"marshal-error", "JSONMarshal failed for a decodable message: "+err.Error(), dd)
		return
	}
	if cls, msg := checkFlowJSON(jc.v9, out, jc.addr.String(), d.Hdr, want); cls != "" {
		dd := desc().(map[string]interface{})
		dd["json"] = string(out)
		c.Violation(sig+cls, msg, dd)
		return
	}
	c.Outcome("ok")
	c.Sample(func() interface{} { dd := desc().(map[string]interface{}); dd["json"] = string(out); return dd })
}

func filler(v9 bool) (flowh.Kind, []byte) {
	by := flowh.ElemByType()
	return flowh.Kind{Name: "u16", F: ref.Field{ID: by[ref.TU16], Len: 2, Type: ref.TU16}}, []byte{0x12, 0x34}
}

// every value at every position {first, middle, last, alone} x scope/non-scope x 4 exporter address forms
func jsonPosSpace(v9 bool) mck.Space {
	vals := jsonValues(v9)
	dims := mck.Radix{uint64(len(vals)), 4, 2, uint64(len(jsonAddrs))}
	return mck.FuncSpace{N: dims.Size(), F: func(idx uint64, c *mck.Ctx) {
		d := dims.Digits(idx)
		v := vals[d[0]]
		fk, fraw := filler(v9)
		var fields []ref.Field
		var rec ref.Record
		add := func(k flowh.Kind, raw []byte) {
			fields = append(fields, k.F)
			rec = append(rec, ref.Value{Raw: raw})
		}
		switch d[1] {
		case 0:
			add(v.k, v.raw)
			add(fk, fraw)
			add(fk, fraw)
		case 1:
			add(fk, fraw)
			add(v.k, v.raw)
			add(fk, fraw)
		case 2:
			add(fk, fraw)
			add(fk, fraw)
			add(v.k, v.raw)
		case 3:
			add(v.k, v.raw)
		}
		t := ref.Template{ID: 256}
		if d[2] == 1 {
			t.Options = true
			t.Scope = fields[:1]
			t.Fields = fields[1:]
			if len(fields) == 1 {
				c.Skip()
				return
			}
		} else {
			t.Fields = fields
		}
		if t.MinRecordLen() == 0 {
			c.Skip()
			return
		}
		runJSONCase(c, &jsonCase{v9: v9, addr: jsonAddrs[d[3]], tpl: t, recs: []ref.Record{rec}, nsets: 1, desc: fmt.Sprintf("value %s at position %d options=%d", v.name, d[1], d[2]), tag: strings.SplitN(v.name, ":", 2)[0]})
	}}
}

// every ordered pair of values in one record (encoder state / error handling across fields)
func jsonPairSpace(v9 bool) mck.Space {
	vals := jsonValues(v9)
	n := uint64(len(vals))
	dims := mck.Radix{n, n}
	return mck.FuncSpace{N: dims.Size(), F: func(idx uint64, c *mck.Ctx) {
		d := dims.Digits(idx)
		a, b := vals[d[0]], vals[d[1]]
		t := ref.Template{ID: 300, Fields: []ref.Field{a.k.F, b.k.F}}
		if t.MinRecordLen() == 0 {
			c.Skip()
			return
		}
		rec := ref.Record{{Raw: a.raw}, {Raw: b.raw}}
		runJSONCase(c, &jsonCase{v9: v9, addr: jsonAddrs[0], tpl: t, recs: []ref.Record{rec, rec}, nsets: 1, desc: fmt.Sprintf("pair %s , %s", a.name, b.name), tag: strings.SplitN(a.name, ":", 2)[0] + "+" + strings.SplitN(b.name, ":", 2)[0]})
	}}
}

// document structure: 1..3 sets x 1..3 records x 1..3 fields
func jsonShapeSpace(v9 bool) mck.Space {
	dims := mck.Radix{3, 3, 3, uint64(len(jsonAddrs))}
	return mck.FuncSpace{N: dims.Size(), F: func(idx uint64, c *mck.Ctx) {
		d := dims.Digits(idx)
		fk, _ := filler(v9)
		t := ref.Template{ID: 256}
		var rec ref.Record
		for i := 0; i <= d[2]; i++ {
			t.Fields = append(t.Fields, fk.F)
			rec = append(rec, ref.Value{Raw: []byte{byte(i), byte(idx)}})
		}
		var recs []ref.Record
		for i := 0; i <= d[1]; i++ {
			recs = append(recs, rec)
		}
		runJSONCase(c, &jsonCase{v9: v9, addr: jsonAddrs[d[3]], tpl: t, recs: recs, nsets: d[0] + 1, desc: fmt.Sprintf("%d sets x %d records x %d fields", d[0]+1, d[1]+1, d[2]+1)})
	}}
}

// every ordered triple of values from a reduced alphabet (one value per class) in one record (thorough)
func jsonTripleSpace(v9 bool) mck.Space {
	all := jsonValues(v9)
	var vals []jval
	seen := map[string]int{}
	for _, v := range all {
		cls := strings.SplitN(v.name, ":", 2)[0]
		if seen[cls] < 3 {
			seen[cls]++
			vals = append(vals, v)
		}
	}
	n := uint64(len(vals))
	dims := mck.Radix{n, n, n}
	return mck.FuncSpace{N: dims.Size(), F: func(idx uint64, c *mck.Ctx) {
		d := dims.Digits(idx)
		a, b, cc := vals[d[0]], vals[d[1]], vals[d[2]]
		t := ref.Template{ID: 301, Fields: []ref.Field{a.k.F, b.k.F, cc.k.F}}
		if t.MinRecordLen() == 0 {
			c.Skip()
			return
		}
		rec := ref.Record{{Raw: a.raw}, {Raw: b.raw}, {Raw: cc.raw}}
		runJSONCase(c, &jsonCase{v9: v9, addr: jsonAddrs[idx%4], tpl: t, recs: []ref.Record{rec}, nsets: 1, desc: fmt.Sprintf("triple %s , %s , %s", a.name, b.name, cc.name), tag: "triple"})
	}}
}

// jsonMixedSpace: one message carrying data sets of TWO templates with different numbers of fields
// (1..3 each), in the orders AB, BA, ABA, BAB, with 1..2 records per set; values from a small
// encoder-directed alphabet. The encoder's separators must not depend on the first record's shape.
func jsonMixedSpace(v9 bool) mck.Space {
	all := jsonValues(v9)
	var vals []jval
	seen := map[string]bool{}
	for _, v := range all {
		cls := strings.SplitN(v.name, ":", 2)[0]
		if !seen[cls] && len(v.raw) > 0 && v.k.F.Len != 65535 {
			seen[cls] = true
			vals = append(vals, v)
		}
	}
	nv := uint64(len(vals))
	dims := mck.Radix{3, 3, 4, 2, 2, nv}
	return mck.FuncSpace{N: dims.Size(), F: func(idx uint64, c *mck.Ctx) {
		d := dims.Digits(idx)
		na, nb := d[0]+1, d[1]+1
		mk := func(id uint16, n int, off int) (ref.Template, ref.Record) {
			t := ref.Template{ID: id}
			var rec ref.Record
			for i := 0; i < n; i++ {
				v := vals[(d[5]+i+off)%len(vals)]
				t.Fields = append(t.Fields, v.k.F)
				rec = append(rec, ref.Value{Raw: v.raw})
			}
			return t, rec
		}
		ta, ra := mk(300, na, 0)
		tb, rb := mk(301, nb, 5)
		recs := func(r ref.Record, n int) []ref.Record {
			var out []ref.Record
			for i := 0; i <= n; i++ {
				out = append(out, r)
			}
			return out
		}
		sa := ref.Set{Kind: ref.SetData, TemplateID: 300, Records: recs(ra, d[3])}
		sb := ref.Set{Kind: ref.SetData, TemplateID: 301, Records: recs(rb, d[4])}
		order := [][]ref.Set{{sa, sb}, {sb, sa}, {sa, sb, sa}, {sb, sa, sb}}[d[2]]
		tpls := map[uint16]ref.Template{300: ta, 301: tb}
		sets := append([]ref.Set{{Kind: ref.SetTemplates, Templates: []ref.Template{ta, tb}}}, order...)
		m := &ref.Msg{V9: v9, Hdr: hdrFor(v9, 3), Sets: sets}
		runJSONMsg(c, v9, m, tpls, fmt.Sprintf("mixed templates: A has %d fields, B has %d, order %d", na, nb, d[2]), "mixed")
	}}
}

// runJSONMsg: like runJSONCase for an arbitrary message.
func runJSONMsg(c *mck.Ctx, v9 bool, m *ref.Msg, tpls map[uint16]ref.Template, what, tag string) {
	addr := jsonAddrs[0]
	wire := m.Encode(tpls)
	want := m.Expected(tpls)
	desc := func() interface{} {
		return map[string]interface{}{"desc": what, "v9": v9, "wire": hex.EncodeToString(wire), "expected": flowh.DescribeRecords(want)}
	}
	c.SetCase(desc)
	c.Nontrivial(mck.Hash64(wire))
	d := flowh.Decode(v9, addr, append([]byte{}, wire...), flowh.NewCaches())
	sig := "ipfix:json:" + tag + ":"
	if v9 {
		sig = "v9:json:" + tag + ":"
	}
	if d.Nil || d.Err != nil {
		c.Violation(sig+"decode-failed", fmt.Sprint(d.Err), desc())
		return
	}
	var out []byte
	var err error
	if d.IPFIX != nil {
		out, err = d.IPFIX.JSONMarshal(new(bytes.Buffer))
	} else {
		out, err = d.V9.JSONMarshal(new(bytes.Buffer))
	}
	if err != nil {
		c.Violation(sig+"marshal-error", err.Error(), desc())
		return
	}
	if cls, msg := checkFlowJSON(v9, out, addr.String(), d.Hdr, want); cls != "" {
		dd := desc().(map[string]interface{})
		dd["json"] = string(out)
		c.Violation(sig+cls, msg, dd)
		return
	}
	c.Outcome("ok")
	c.Sample(func() interface{} { dd := desc().(map[string]interface{}); dd["json"] = string(out); return dd })
}

// jsonCountsSpace: size instead of shape - N records, N fields per record, and (IPFIX) one string / octet
// array value of L octets in front of an integer, with N and L around the powers of two an encoder's
// buffers and length arithmetic care about. The document must still be one valid, faithful JSON document.
func jsonCountsSpace(v9 bool, tier string) mck.Space {
	kinds := flowh.Kinds(v9, true)
	var fixed []flowh.Kind
	var vstr, voct *flowh.Kind
	for i, k := range kinds {
		if k.F.Len != 65535 && k.F.Len >= 1 && k.F.Len <= 16 && k.F.PEN == 0 {
			fixed = append(fixed, k)
		}
		if k.F.Len == 65535 && k.F.Type == ref.TString && vstr == nil {
			vstr = &kinds[i]
		}
		if k.F.Len == 65535 && k.F.Type == ref.TOctetArray && voct == nil {
			voct = &kinds[i]
		}
	}
	counts := []int{1, 2, 3, 7, 8, 9, 15, 16, 17, 31, 32, 33, 63, 64, 65, 127, 128, 129, 255, 256, 257, 511, 512, 513, 1000, 1023, 1024, 1025, 2047, 2048, 2049, 4095, 4096, 4097, 8191, 8192, 8193, 16383, 16384, 16385, 32767, 32768, 32769, 60000}
	if tier == "thorough" {
		for n := 1; n <= 1100; n++ {
			counts = append(counts, n)
		}
	}
	modes := []string{"records", "fields", "string-octets", "octetarray-octets"}
	dims := mck.Radix{uint64(len(modes)), uint64(len(counts))}
	return mck.FuncSpace{N: dims.Size(), F: func(idx uint64, c *mck.Ctx) {
		d := dims.Digits(idx)
		mode, n := modes[d[0]], counts[d[1]]
		t := ref.Template{ID: 300}
		var recs []ref.Record
		rec := func(ks []flowh.Kind, r int) ref.Record {
			var out ref.Record
			for f, k := range ks {
				out = append(out, flowh.FillValue(k, 0, r, f))
			}
			return out
		}
		switch mode {
		case "records":
			ks := []flowh.Kind{fixed[0], fixed[1%len(fixed)], fixed[2%len(fixed)]}
			for _, k := range ks {
				t.Fields = append(t.Fields, k.F)
			}
			for r := 0; r < n; r++ {
				recs = append(recs, rec(ks, r))
			}
		case "fields":
			var ks []flowh.Kind
			for i := 0; i < n; i++ {
				k := fixed[i%len(fixed)]
				ks = append(ks, k)
				t.Fields = append(t.Fields, k.F)
			}
			recs = []ref.Record{rec(ks, 0), rec(ks, 1)}
		default:
			k := vstr
			if mode == "octetarray-octets" {
				k = voct
			}
			if v9 || k == nil {
				c.Skip()
				return
			}
			t.Fields = []ref.Field{k.F, fixed[0].F}
			b := make([]byte, n)
			for i := range b {
				b[i] = byte('A' + i%58) // letters and a few punctuation marks incl. backslash
			}
			recs = []ref.Record{{ref.Value{Raw: b}, flowh.FillValue(fixed[0], 0, 0, 1)}, {ref.Value{Raw: b[:n/2]}, flowh.FillValue(fixed[0], 0, 1, 1)}}
		}
		tpls := map[uint16]ref.Template{300: t}
		m := &ref.Msg{V9: v9, Hdr: hdrFor(v9, len(recs)+1), Sets: []ref.Set{{Kind: ref.SetTemplates, Templates: []ref.Template{t}}, {Kind: ref.SetData, TemplateID: 300, Records: recs}}}
		if len(m.Encode(tpls)) > 65000 {
			c.Skip()
			return
		}
		runJSONMsg(c, v9, m, tpls, fmt.Sprintf("%s = %d", mode, n), "counts:"+mode)
	}}
}

// jsonAllElemSpace: every element of the information model (IANA ids up to 433, the private ones incl. ids
// above 30000 and enterprise numbers) as a one-field template through the JSON oracle: the id, the enterprise
// number and the value published must be the element's own, for every id - not only for the handful of ids the
// value alphabet happens to use.
func jsonAllElemSpace(v9 bool) mck.Space {
	flowh.InstallExtra()
	type ek struct {
		pen uint32
		id  uint16
	}
	var keys []ek
	for _, k := range flowh.ModelKeys() {
		if v9 && k[0] != 0 {
			continue
		}
		keys = append(keys, ek{uint32(k[0]), uint16(k[1])})
	}
	dims := mck.Radix{uint64(len(keys)), 2}
	return mck.FuncSpace{N: dims.Size(), F: func(idx uint64, c *mck.Ctx) {
		d := dims.Digits(idx)
		k := keys[d[0]]
		at := flowh.TypeOf(k.pen, k.id)
		kind := flowh.Kind{Name: fmt.Sprintf("%d/%d", k.pen, k.id), F: ref.Field{ID: k.id, PEN: k.pen, Type: at}}
		if n := at.NaturalLen(); n > 0 {
			kind.F.Len = uint16(n)
		} else {
			kind.F.Len = 6
		}
		// a second, ordinary field behind it: whatever is cached or indexed per field must not leak into the next one
		by := flowh.ElemByType()
		f2 := ref.Field{ID: by[ref.TU16], Len: 2, Type: ref.TU16}
		t := ref.Template{ID: 300, Fields: []ref.Field{kind.F, f2}}
		if d[1] == 1 {
			t.Fields = []ref.Field{f2, kind.F}
		}
		tpls := map[uint16]ref.Template{300: t}
		mkrec := func(r int) ref.Record {
			a, b := flowh.FillValue(kind, 0, r, 0), ref.Value{Raw: []byte{byte(r + 1), 0x55}}
			if at == ref.TString { // keep strings printable: escaping is not this space's subject
				for i := range a.Raw {
					a.Raw[i] = byte('a' + (i+r)%26)
				}
			}
			if d[1] == 1 {
				return ref.Record{b, a}
			}
			return ref.Record{a, b}
		}
		m := &ref.Msg{V9: v9, Hdr: hdrFor(v9, 3), Sets: []ref.Set{{Kind: ref.SetTemplates, Templates: []ref.Template{t}}, {Kind: ref.SetData, TemplateID: 300, Records: []ref.Record{mkrec(0), mkrec(1)}}}}
		runJSONMsg(c, v9, m, tpls, fmt.Sprintf("element %d/%d (%s), position %d", k.pen, k.id, ref.ATypeNames[at], d[1]), "allelems")
	}}
}

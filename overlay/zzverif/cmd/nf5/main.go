// nf5: NetFlow v5 field-for-field check (C08) and JSON faithfulness (part of C05).
package main

import (
	"bytes"
	"encoding/hex"
	"encoding/json"
	"fmt"
	"net"
	"strings"

	netflow5 "github.com/EdgeCast/vflow/netflow/v5"
	"github.com/EdgeCast/vflow/zzverif/mck"
)

type fdef struct {
	name string
	off  int
	n    int
	addr bool
}

// wire layout written from the Cisco NetFlow v5 export format
var hdrFields = []fdef{{"Version", 0, 2, false}, {"Count", 2, 2, false}, {"SysUpTimeMSecs", 4, 4, false}, {"UNIXSecs", 8, 4, false}, {"UNIXNSecs", 12, 4, false},
	{"SeqNum", 16, 4, false}, {"EngType", 20, 1, false}, {"EngID", 21, 1, false}, {"SmpInt", 22, 2, false}}
var recFields = []fdef{{"SrcAddr", 0, 4, true}, {"DstAddr", 4, 4, true}, {"NextHop", 8, 4, true}, {"Input", 12, 2, false}, {"Output", 14, 2, false},
	{"PktCount", 16, 4, false}, {"L3Octets", 20, 4, false}, {"StartTime", 24, 4, false}, {"EndTime", 28, 4, false}, {"SrcPort", 32, 2, false}, {"DstPort", 34, 2, false},
	{"Padding1", 36, 1, false}, {"TCPFlags", 37, 1, false}, {"ProtType", 38, 1, false}, {"Tos", 39, 1, false}, {"SrcAsNum", 40, 2, false}, {"DstAsNum", 42, 2, false},
	{"SrcMask", 44, 1, false}, {"DstMask", 45, 1, false}, {"Padding2", 46, 2, false}}

var versions = []uint16{5, 0, 9, 10, 0x0500}
var counts = []uint16{1, 2, 29, 30, 0, 31, 65535}

func lengths(count uint16) []int {
	var ls []int
	for i := 0; i <= 24; i++ {
		ls = append(ls, i)
	}
	c := int(count)
	if c > 31 {
		c = 32
	}
	exact := 24 + 48*c
	for _, l := range []int{exact - 48, exact - 1, exact, exact + 1, exact + 48} {
		if l > 24 {
			ls = append(ls, l)
		}
	}
	return ls
}

const nFills = 3 + 2*(9+20) // 3 whole-buffer fills + one-hot and low-bit per field

func fill(b []byte, f int) string {
	switch f {
	case 0:
		for i := range b {
			b[i] = byte(i*7 + 3)
		}
		return "position-unique"
	case 1:
		for i := range b {
			b[i] = 0xff
		}
		return "all-ones"
	case 2:
		return "all-zero"
	}
	f -= 3
	low := f%2 == 1
	f /= 2
	set := func(off, n int) {
		if off+n > len(b) {
			return
		}
		for i := 0; i < n; i++ {
			if low {
				if i == n-1 {
					b[off+i] = 1
				}
			} else {
				b[off+i] = 0xff
			}
		}
	}
	if f < len(hdrFields) {
		set(hdrFields[f].off, hdrFields[f].n)
		return fmt.Sprintf("header.%s %v", hdrFields[f].name, low)
	}
	f -= len(hdrFields)
	for r := 0; 24+48*r < len(b); r++ {
		set(24+48*r+recFields[f].off, recFields[f].n)
	}
	return fmt.Sprintf("record.%s %v", recFields[f].name, low)
}

func be(b []byte) uint64 {
	var v uint64
	for _, x := range b {
		v = v<<8 | uint64(x)
	}
	return v
}

type v5case struct {
	ver, count uint16
	length     int
	fillNo     int
	wire       []byte
	fillName   string
}

func mkCases() (mck.Radix, func(idx uint64) *v5case) {
	maxL := 0
	for _, c := range counts {
		if n := len(lengths(c)); n > maxL {
			maxL = n
		}
	}
	dims := mck.Radix{uint64(len(versions)), uint64(len(counts)), uint64(maxL), nFills}
	return dims, func(idx uint64) *v5case {
		d := dims.Digits(idx)
		ls := lengths(counts[d[1]])
		if d[2] >= len(ls) {
			return nil
		}
		c := &v5case{ver: versions[d[0]], count: counts[d[1]], length: ls[d[2]], fillNo: d[3]}
		b := make([]byte, c.length)
		c.fillName = fill(b, c.fillNo)
		// version and count are case parameters: written last
		if len(b) >= 2 {
			b[0], b[1] = byte(c.ver>>8), byte(c.ver)
		}
		if len(b) >= 4 {
			b[2], b[3] = byte(c.count>>8), byte(c.count)
		}
		c.wire = b
		return c
	}
}

func (c *v5case) describe() interface{} {
	return map[string]interface{}{"version": c.ver, "count": c.count, "length": c.length, "fill": c.fillName, "wire": hex.EncodeToString(c.wire)}
}

func recSpace(tier string) mck.Space {
	dims, mk := mkCases()
	addr := net.ParseIP("192.0.2.9")
	return mck.FuncSpace{N: dims.Size(), F: func(idx uint64, c *mck.Ctx) {
		cs := mk(idx)
		if cs == nil {
			c.Skip()
			return
		}
		c.SetCase(cs.describe)
		wantFlows := 0
		if cs.length >= 4 && cs.ver == 5 && cs.count >= 1 && cs.count <= 30 && cs.length >= 24+48*int(cs.count) {
			wantFlows = int(cs.count)
		}
		msg, err := netflow5.NewDecoder(append(net.IP{}, addr...), append([]byte{}, cs.wire...)).Decode()
		fail := func(cls, m string) {
			c.Violation("v5:"+cls, m, map[string]interface{}{"case": cs.describe(), "err": fmt.Sprint(err)})
		}
		if wantFlows == 0 {
			if msg != nil && len(msg.Flows) != 0 {
				fail("flows-from-invalid", fmt.Sprintf("%d flows from a packet that must yield none", len(msg.Flows)))
			}
			c.Outcome("noflows")
			if cs.length >= 24 {
				c.Nontrivial(mck.Hash64(cs.wire))
			}
			return
		}
		c.Nontrivial(mck.Hash64(cs.wire))
		c.Outcome(fmt.Sprintf("flows"))
		if msg == nil {
			fail("rejected", fmt.Sprintf("valid packet rejected: %v", err))
			return
		}
		if err != nil {
			fail("error", fmt.Sprintf("valid packet decoded with error %v", err))
		}
		if msg.AgentID != addr.String() {
			fail("agent", msg.AgentID)
		}
		if len(msg.Flows) != wantFlows {
			fail("flow-count", fmt.Sprintf("%d flows, expected %d", len(msg.Flows), wantFlows))
			return
		}
		// struct-level comparison through JSON of the Go struct (field names = wire names)
		hs, _ := json.Marshal(msg.Header)
		var hm map[string]json.Number
		dec := json.NewDecoder(bytes.NewReader(hs))
		dec.UseNumber()
		dec.Decode(&hm)
		for _, f := range hdrFields {
			if string(hm[f.name]) != fmt.Sprint(be(cs.wire[f.off:f.off+f.n])) {
				fail("header."+f.name, fmt.Sprintf("header %s=%s expected %d", f.name, hm[f.name], be(cs.wire[f.off:f.off+f.n])))
			}
		}
		for r := 0; r < wantFlows; r++ {
			fs, _ := json.Marshal(msg.Flows[r])
			var fm map[string]json.Number
			dec := json.NewDecoder(bytes.NewReader(fs))
			dec.UseNumber()
			dec.Decode(&fm)
			for _, f := range recFields {
				o := 24 + 48*r + f.off
				if string(fm[f.name]) != fmt.Sprint(be(cs.wire[o:o+f.n])) {
					fail("record."+f.name, fmt.Sprintf("flow %d %s=%s expected %d", r, f.name, fm[f.name], be(cs.wire[o:o+f.n])))
				}
			}
		}
		// published JSON
		out, jerr := msg.JSONMarshal(new(bytes.Buffer))
		if jerr != nil {
			fail("json-error", jerr.Error())
			return
		}
		if cls, m := checkJSON(cs, out, addr.String(), wantFlows); cls != "" {
			c.Violation("v5:json:"+cls, m, map[string]interface{}{"case": cs.describe(), "json": string(out)})
		}
		c.Sample(func() interface{} { m := cs.describe().(map[string]interface{}); m["json"] = string(out); return m })
	}}
}

func checkJSON(cs *v5case, out []byte, agent string, nflows int) (string, string) {
	if !json.Valid(out) {
		return "invalid", "not valid JSON"
	}
	var doc struct {
		AgentID string
		Header  map[string]json.Number
		Flows   []map[string]interface{}
	}
	dec := json.NewDecoder(bytes.NewReader(out))
	dec.UseNumber()
	dec.DisallowUnknownFields()
	if err := dec.Decode(&doc); err != nil {
		return "shape", err.Error()
	}
	if dec.More() {
		return "trailing", "more than one document"
	}
	if doc.AgentID != agent {
		return "agent", doc.AgentID
	}
	if len(doc.Header) < len(hdrFields) { // further keys are not excluded by the statement
		return "header-keys", fmt.Sprint(doc.Header)
	}
	for _, f := range hdrFields {
		if string(doc.Header[f.name]) != fmt.Sprint(be(cs.wire[f.off:f.off+f.n])) {
			return "header." + f.name, fmt.Sprintf("%s=%s", f.name, doc.Header[f.name])
		}
	}
	if len(doc.Flows) != nflows {
		return "flow-count", fmt.Sprint(len(doc.Flows))
	}
	for r, fl := range doc.Flows {
		if len(fl) < len(recFields) {
			return "flow-keys", fmt.Sprint(fl)
		}
		for _, f := range recFields {
			o := 24 + 48*r + f.off
			raw := cs.wire[o : o+f.n]
			if f.addr {
				s, ok := fl[f.name].(string)
				want := fmt.Sprintf("%d.%d.%d.%d", raw[0], raw[1], raw[2], raw[3])
				if !ok || s != want {
					return "record." + f.name, fmt.Sprintf("flow %d %s=%v expected %s", r, f.name, fl[f.name], want)
				}
				continue
			}
			n, ok := fl[f.name].(json.Number)
			if !ok || string(n) != fmt.Sprint(be(raw)) {
				return "record." + f.name, fmt.Sprintf("flow %d %s=%v expected %d", r, f.name, fl[f.name], be(raw))
			}
		}
	}
	return "", ""
}

// pairSpace (thorough): all pairs of one-hot record fields in one valid 2-record packet.
func pairSpace(tier string) mck.Space {
	n := uint64(len(recFields))
	dims := mck.Radix{n, n, 2}
	addr := net.ParseIP("2001:db8::9")
	return mck.FuncSpace{N: dims.Size(), F: func(idx uint64, c *mck.Ctx) {
		d := dims.Digits(idx)
		b := make([]byte, 24+96)
		b[1], b[3] = 5, 2
		for _, fi := range d[:2] {
			f := recFields[fi]
			for i := 0; i < f.n; i++ {
				b[24+48*d[2]+f.off+i] = 0xff
			}
		}
		cs := &v5case{ver: 5, count: 2, length: len(b), wire: b, fillName: "pair " + recFields[d[0]].name + "+" + recFields[d[1]].name}
		c.SetCase(cs.describe)
		msg, err := netflow5.NewDecoder(addr, append([]byte{}, b...)).Decode()
		if msg == nil || err != nil || len(msg.Flows) != 2 {
			c.Violation("v5:rejected", fmt.Sprint(err), cs.describe())
			return
		}
		out, jerr := msg.JSONMarshal(new(bytes.Buffer))
		if jerr != nil {
			c.Violation("v5:json-error", jerr.Error(), cs.describe())
			return
		}
		if cls, m := checkJSON(cs, out, addr.String(), 2); cls != "" {
			c.Violation("v5:json:"+cls, m, map[string]interface{}{"case": cs.describe(), "json": string(out)})
		}
		c.Nontrivial(mck.Hash64(b))
		c.Outcome("flows")
		if !strings.Contains(string(out), "Flows") {
			c.Violation("v5:json:noflows", "", nil)
		}
	}}
}

// sweepSpace: EVERY value of every 8- and 16-bit field of the header and of either record of a two-flow packet
// (the other octets position-unique): a value that is singled out for special treatment - a "well-known" AS
// number, port, protocol, mask - shows only when that very value is tried.
func sweepSpace(tier string) mck.Space {
	type slot struct {
		name string
		off  int // offset in the datagram
		n    int
	}
	var slots []slot
	for _, f := range hdrFields {
		if f.n <= 2 && f.name != "Version" && f.name != "Count" {
			slots = append(slots, slot{"header." + f.name, f.off, f.n})
		}
	}
	for r := 0; r < 2; r++ {
		for _, f := range recFields {
			if f.n <= 2 {
				slots = append(slots, slot{fmt.Sprintf("record%d.%s", r, f.name), 24 + 48*r + f.off, f.n})
			}
		}
	}
	dims := mck.Radix{uint64(len(slots)), 65536}
	addr := net.ParseIP("192.0.2.9")
	base := make([]byte, 24+96)
	fill(base, 0)
	base[0], base[1], base[2], base[3] = 0, 5, 0, 2
	return mck.FuncSpace{N: dims.Size(), F: func(idx uint64, c *mck.Ctx) {
		d := dims.Digits(idx)
		sl := slots[d[0]]
		if sl.n == 1 && d[1] > 255 {
			c.Skip()
			return
		}
		b := append([]byte{}, base...)
		if sl.n == 1 {
			b[sl.off] = byte(d[1])
		} else {
			b[sl.off], b[sl.off+1] = byte(d[1]>>8), byte(d[1])
		}
		cs := &v5case{ver: 5, count: 2, length: len(b), wire: b, fillName: fmt.Sprintf("%s = %d", sl.name, d[1])}
		c.SetCase(cs.describe)
		msg, err := netflow5.NewDecoder(addr, append([]byte{}, b...)).Decode()
		if msg == nil || err != nil || len(msg.Flows) != 2 {
			c.Violation("v5:sweep:rejected", fmt.Sprint(err), cs.describe())
			return
		}
		out, jerr := msg.JSONMarshal(new(bytes.Buffer))
		if jerr != nil {
			c.Violation("v5:sweep:json-error", jerr.Error(), cs.describe())
			return
		}
		if cls, m := checkJSON(cs, out, addr.String(), 2); cls != "" {
			c.Violation("v5:sweep:"+cls, m, map[string]interface{}{"case": cs.describe(), "json": string(out)})
		}
		c.Nontrivial(mck.Hash64(b))
		if idx%100003 == 0 {
			c.Sample(cs.describe)
		}
	}}
}

func main() {
	mck.Main(map[string]func(string) mck.Space{"v5.rec": recSpace, "v5.pairs": pairSpace, "v5.sweep": sweepSpace})
}

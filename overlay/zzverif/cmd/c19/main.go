// C19: byte reader — explicit-state search to closure + unmerged bounded sequences.
package main

import (
	"bytes"
	"encoding/binary"
	"fmt"
	"reflect"

	"github.com/EdgeCast/vflow/reader"
	"github.com/EdgeCast/vflow/zzverif/mck"
)

type op struct {
	kind string // u8 u16 u32 u64 read peek16 peek len count
	n    int
}

func (o op) String() string {
	if o.kind == "read" || o.kind == "peek" {
		return fmt.Sprintf("%s(%d)", o.kind, o.n)
	}
	return o.kind
}

type buffer struct {
	fam  int
	data []byte
}

// working copy handed to the reader: a prefix of a LARGER array whose tail holds sentinel octets
// (a receive buffer sliced to the datagram length: cap > len), so that reading past len is observable
func workCopy(data []byte) []byte {
	big := make([]byte, len(data)+16)
	copy(big, data)
	for i := len(data); i < len(big); i++ {
		big[i] = 0xEE
	}
	return big[:len(data)]
}

func mkBuffers() []buffer {
	var bs []buffer
	for L := 0; L <= 9; L++ {
		for fam := 0; fam < 2; fam++ {
			b := make([]byte, L)
			for i := range b {
				if fam == 0 {
					b[i] = byte(i + 1)
				} else {
					b[i] = byte(0x80 + 13*i + 7)
				}
			}
			bs = append(bs, buffer{fam, b})
		}
	}
	return bs
}

func opsFor(L int) []op {
	ops := []op{{"u8", 0}, {"u16", 0}, {"u32", 0}, {"u64", 0}, {"peek16", 0}, {"len", 0}, {"count", 0}}
	ns := []int{0, 1, 2, 3, 4, 5, 8, 9, L, L + 1}
	seen := map[int]bool{}
	for _, n := range ns {
		if seen[n] {
			continue
		}
		seen[n] = true
		ops = append(ops, op{"read", n}, op{"peek", n})
	}
	return ops
}

// reference model: a position in an immutable slice
type ref struct {
	buf []byte
	pos int
}

type result struct {
	val   uint64
	bytes []byte
	isB   bool
	err   bool
}

func (m *ref) apply(o op) result {
	rem := len(m.buf) - m.pos
	need := map[string]int{"u8": 1, "u16": 2, "u32": 4, "u64": 8, "peek16": 2}
	switch o.kind {
	case "u8", "u16", "u32", "u64":
		n := need[o.kind]
		if rem < n {
			return result{err: true}
		}
		var v uint64
		for _, b := range m.buf[m.pos : m.pos+n] {
			v = v<<8 | uint64(b)
		}
		m.pos += n
		return result{val: v}
	case "peek16":
		if rem < 2 {
			return result{err: true}
		}
		return result{val: uint64(m.buf[m.pos])<<8 | uint64(m.buf[m.pos+1])}
	case "read":
		if rem < o.n {
			return result{err: true, isB: true}
		}
		r := result{isB: true, bytes: m.buf[m.pos : m.pos+o.n]}
		m.pos += o.n
		return r
	case "peek":
		if rem < o.n {
			return result{err: true, isB: true}
		}
		return result{isB: true, bytes: m.buf[m.pos : m.pos+o.n]}
	case "len":
		return result{val: uint64(rem)}
	case "count":
		return result{val: uint64(m.pos)}
	}
	panic("op")
}

func applyImpl(r *reader.Reader, o op) result {
	switch o.kind {
	case "u8":
		v, err := r.Uint8()
		return result{val: uint64(v), err: err != nil}
	case "u16":
		v, err := r.Uint16()
		return result{val: uint64(v), err: err != nil}
	case "u32":
		v, err := r.Uint32()
		return result{val: uint64(v), err: err != nil}
	case "u64":
		v, err := r.Uint64()
		return result{val: v, err: err != nil}
	case "peek16":
		v, err := r.PeekUint16()
		return result{val: uint64(v), err: err != nil}
	case "read":
		b, err := r.Read(o.n)
		return result{isB: true, bytes: b, err: err != nil}
	case "peek":
		b, err := r.Peek(o.n)
		return result{isB: true, bytes: b, err: err != nil}
	case "len":
		return result{val: uint64(r.Len())}
	case "count":
		return result{val: uint64(r.ReadCount())}
	}
	panic("op")
}

// step applies o to both, checks every clause of the property; returns "" or a violation.
func step(r *reader.Reader, m *ref, work, pristine []byte, o op) (string, string) {
	pos0 := m.pos
	want := m.apply(o)
	got := applyImpl(r, o)
	if got.err != want.err {
		return "reader:" + o.kind + ":error-mismatch", fmt.Sprintf("pos=%d len=%d op=%v: impl err=%v, reference err=%v", pos0, len(work), o, got.err, want.err)
	}
	if !want.err {
		if want.isB {
			if len(got.bytes) != len(want.bytes) {
				return "reader:" + o.kind + ":length", fmt.Sprintf("pos=%d op=%v: %d octets returned, %d asked for", pos0, o, len(got.bytes), len(want.bytes))
			}
			if !bytes.Equal(got.bytes, want.bytes) {
				return "reader:" + o.kind + ":value", fmt.Sprintf("pos=%d op=%v: got % x want % x", pos0, o, got.bytes, want.bytes)
			}
			// (whether the octets are returned as a view of the buffer or as a copy is not part of the statement)
		} else if got.val != want.val {
			return "reader:" + o.kind + ":value", fmt.Sprintf("pos=%d op=%v: got %d want %d", pos0, o, got.val, want.val)
		}
	}
	if r.Len() != len(work)-m.pos {
		return "reader:" + o.kind + ":position", fmt.Sprintf("pos=%d op=%v (err=%v): Len()=%d, expected %d", pos0, o, want.err, r.Len(), len(work)-m.pos)
	}
	if r.ReadCount() != m.pos {
		return "reader:" + o.kind + ":count", fmt.Sprintf("pos=%d op=%v (err=%v): ReadCount()=%d, expected %d", pos0, o, want.err, r.ReadCount(), m.pos)
	}
	if r.ReadCount()+r.Len() != len(work) {
		return "reader:" + o.kind + ":conservation", fmt.Sprintf("consumed+remaining=%d != %d", r.ReadCount()+r.Len(), len(work))
	}
	if pristine != nil && !bytes.Equal(work[:len(pristine)], pristine) {
		return "reader:" + o.kind + ":buffer-written", "the underlying buffer was modified"
	}
	return "", ""
}

// implState renders EVERY field of the real Reader (whatever its shape) except the buffer contents:
// two readers over the same buffer with equal renderings have equal futures, which is what merging
// BFS states needs. ok=false if a field is of a kind that cannot be rendered by value (pointer, map,
// interface ...): then states are not merged on it and the search is reported as not exhaustive.
func implState(r *reader.Reader) (string, bool) {
	v := reflect.ValueOf(r).Elem()
	out := ""
	for i := 0; i < v.NumField(); i++ {
		f := v.Field(i)
		switch f.Kind() {
		case reflect.Int, reflect.Int8, reflect.Int16, reflect.Int32, reflect.Int64:
			out += fmt.Sprintf("%s=%d;", v.Type().Field(i).Name, f.Int())
		case reflect.Uint, reflect.Uint8, reflect.Uint16, reflect.Uint32, reflect.Uint64, reflect.Uintptr:
			out += fmt.Sprintf("%s=%d;", v.Type().Field(i).Name, f.Uint())
		case reflect.Bool:
			out += fmt.Sprintf("%s=%v;", v.Type().Field(i).Name, f.Bool())
		case reflect.String:
			out += fmt.Sprintf("%s=%q;", v.Type().Field(i).Name, f.String())
		case reflect.Slice:
			if f.Type().Elem().Kind() != reflect.Uint8 {
				return "", false
			}
			out += fmt.Sprintf("%s=[len %d];", v.Type().Field(i).Name, f.Len())
		default:
			return "", false
		}
	}
	return out, true
}

func opNames(ops []op) []string {
	var s []string
	for _, o := range ops {
		s = append(s, o.String())
	}
	return s
}

// bfs: per buffer, breadth-first over positions; successor = replay of the shortest op
// list on a fresh real Reader + one more op.
func bfsSpace(tier string) mck.Space {
	bufs := mkBuffers()
	return mck.FuncSpace{N: uint64(len(bufs)), F: func(idx uint64, c *mck.Ctx) {
		b := bufs[idx]
		ops := opsFor(len(b.data))
		type st struct{ path []op }
		// a state = reference position + the real reader's own fields; the start state:
		k0, mergeable := implState(reader.NewReader(workCopy(b.data)))
		if !mergeable {
			fmt.Println("reader.Reader holds a field that cannot be rendered by value: states are not merged, see the unmerged sequence space")
			c.Incomplete()
			return
		}
		type skey struct {
			pos  int
			impl string
		}
		seen := map[skey]st{{0, k0}: {}}
		frontier := []skey{{0, k0}}
		depth := 0
		for len(frontier) > 0 {
			var next []skey
			for _, cur := range frontier {
				pos := cur.pos
				path := seen[cur].path
				for _, o := range ops {
					work := workCopy(b.data)
					r := reader.NewReader(work)
					m := &ref{buf: b.data}
					for _, po := range path { // replay (already checked when first taken)
						applyImpl(r, po)
						m.apply(po)
					}
					sig, msg := step(r, m, work, b.data, o)
					c.Transitions(1)
					if sig != "" {
						c.Violation(sig, msg, map[string]interface{}{"buffer": fmt.Sprintf("% x", b.data), "path": opNames(path), "op": o.String()})
						continue
					}
					c.Outcome(fmt.Sprintf("%s:%v", o.kind, m.pos != pos))
					ik, _ := implState(r)
					if nk := (skey{m.pos, ik}); len(seen) < 100000 {
						if _, ok := seen[nk]; !ok {
							np := append(append([]op{}, path...), o)
							seen[nk] = st{np}
							next = append(next, nk)
						}
					} else {
						c.Incomplete()
					}
				}
			}
			frontier = next
			depth++
		}
		c.States(uint64(len(seen)))
		c.Depth(uint64(depth))
		c.Nontrivial(mck.Hash64(b.data, []byte{byte(b.fam), byte(len(b.data))}))
		c.Sample(func() interface{} {
			return map[string]interface{}{"buffer": fmt.Sprintf("% x", b.data), "ops": opNames(ops), "reachable_positions": len(seen)}
		})
	}}
}

// seq: all op sequences of length D without state merging; root = (buffer, first 2 ops).
func seqSpace(tier string) mck.Space {
	bufs := mkBuffers()
	D := 5
	if tier == "thorough" {
		D = 6
	}
	type root struct {
		b      int
		o1, o2 int
	}
	var roots []root
	for bi, b := range bufs {
		n := len(opsFor(len(b.data)))
		for i := 0; i < n; i++ {
			for j := 0; j < n; j++ {
				roots = append(roots, root{bi, i, j})
			}
		}
	}
	return mck.FuncSpace{N: uint64(len(roots)), F: func(idx uint64, c *mck.Ctx) {
		rt := roots[idx]
		b := bufs[rt.b]
		ops := opsFor(len(b.data))
		seq := make([]int, D)
		seq[0], seq[1] = rt.o1, rt.o2
		var n, consumed uint64
		var rec func(d int)
		run := func() {
			work := workCopy(b.data)
			r := reader.NewReader(work)
			m := &ref{buf: b.data}
			for k := 0; k < D; k++ {
				o := ops[seq[k]]
				sig, msg := step(r, m, work, b.data, o)
				if sig != "" {
					var p []string
					for _, s := range seq[:k] {
						p = append(p, ops[s].String())
					}
					c.Violation(sig, msg, map[string]interface{}{"buffer": fmt.Sprintf("% x", b.data), "path": p, "op": o.String()})
					return
				}
			}
			if m.pos > 0 {
				consumed++
			}
			n++
		}
		rec = func(d int) {
			if d == D {
				run()
				return
			}
			for i := range ops {
				seq[d] = i
				rec(d + 1)
			}
		}
		rec(2)
		c.Transitions(n * uint64(D))
		c.Count("sequences", n)
		c.Count("sequences_consuming", consumed)
		if consumed > 0 {
			var x [12]byte
			binary.LittleEndian.PutUint32(x[:], uint32(rt.b))
			binary.LittleEndian.PutUint32(x[4:], uint32(rt.o1))
			binary.LittleEndian.PutUint32(x[8:], uint32(rt.o2))
			c.Nontrivial(mck.Hash64(x[:]))
		}
		c.Depth(uint64(D))
		if idx%997 == 0 {
			c.Sample(func() interface{} {
				return map[string]interface{}{"buffer": fmt.Sprintf("% x", b.data), "first_ops": []string{ops[rt.o1].String(), ops[rt.o2].String()}, "then": fmt.Sprintf("all %d-op continuations", D-2)}
			})
		}
	}}
}

// wide: buffers around the integer-width boundaries (255/256, 65535/65536) and length arguments around
// them: every op sequence of length 3 (thorough 4), unmerged; root = (buffer, first op).
func wideBuffers() []buffer {
	var bs []buffer
	for _, L := range []int{255, 256, 257, 65535, 65536, 65537, 65600} {
		b := make([]byte, L)
		for i := range b {
			b[i] = byte(i*31 + i>>8 + 1)
		}
		bs = append(bs, buffer{2, b})
	}
	return bs
}

func wideOps(L int) []op {
	ops := []op{{"u8", 0}, {"u16", 0}, {"u32", 0}, {"u64", 0}, {"peek16", 0}, {"len", 0}, {"count", 0}}
	seen := map[int]bool{}
	for _, n := range []int{0, 1, 2, 127, 128, 254, 255, 256, 257, 32767, 32768, 65534, 65535, 65536, 65537, L - 1, L, L + 1} {
		if seen[n] || n > L+1 {
			continue
		}
		seen[n] = true
		ops = append(ops, op{"read", n}, op{"peek", n})
	}
	return ops
}

func wideSpace(tier string) mck.Space {
	bufs := wideBuffers()
	D := 3
	if tier == "thorough" {
		D = 4
	}
	type root struct{ b, o1 int }
	var roots []root
	for bi, b := range bufs {
		for i := range wideOps(len(b.data)) {
			roots = append(roots, root{bi, i})
		}
	}
	return mck.FuncSpace{N: uint64(len(roots)), F: func(idx uint64, c *mck.Ctx) {
		rt := roots[idx]
		b := bufs[rt.b]
		ops := wideOps(len(b.data))
		seq := make([]int, D)
		seq[0] = rt.o1
		work := workCopy(b.data)
		var n, crossing uint64
		var rec func(d int) bool
		run := func() bool {
			r := reader.NewReader(work)
			m := &ref{buf: b.data}
			for k := 0; k < D; k++ {
				o := ops[seq[k]]
				sig, msg := step(r, m, work, nil, o) // the buffer is compared once per sequence, below
				if sig == "" && k == D-1 && !bytes.Equal(work[:len(b.data)], b.data) {
					sig, msg = "reader:"+o.kind+":buffer-written", "the underlying buffer was modified"
				}
				if sig != "" {
					var p []string
					for _, s := range seq[:k] {
						p = append(p, ops[s].String())
					}
					c.Violation("wide:"+sig, msg, map[string]interface{}{"buffer_octets": len(b.data), "path": p, "op": o.String()})
					return false
				}
			}
			if m.pos > 255 {
				crossing++
			}
			n++
			return true
		}
		rec = func(d int) bool {
			if d == D {
				return run()
			}
			for i := range ops {
				seq[d] = i
				if !rec(d + 1) {
					return false
				}
			}
			return true
		}
		rec(1)
		c.Transitions(n * uint64(D))
		c.Count("sequences", n)
		c.Count("sequences_past_octet_255", crossing)
		c.Nontrivial(mck.Hash64([]byte(fmt.Sprint(len(b.data), rt.o1))))
		c.Depth(uint64(D))
		if idx%53 == 0 {
			c.Sample(func() interface{} {
				return map[string]interface{}{"buffer_octets": len(b.data), "first_op": ops[rt.o1].String(), "then": fmt.Sprintf("all %d-op continuations over %d ops", D-1, len(ops))}
			})
		}
	}}
}

// two: a reader's answers depend only on its own buffer and the operations applied to IT - not on other readers
// that exist at the same time (every worker of the collector has one, and a decoder creates one per datagram).
// Two readers A and B over different buffers; B is created before step t (t = 0..D); every sequence of D steps
// (which reader, which operation); after each step the reader operated on is checked as everywhere else AND the
// other one must still report its own length and count.
func twoSpace(tier string) mck.Space {
	bufs := mkBuffers()
	D := 3
	type root struct{ a, t, who1, o1 int }
	var roots []root
	for ai, b := range bufs {
		for t := 0; t <= D; t++ {
			for who := 0; who < 2; who++ {
				for i := range opsFor(len(b.data)) {
					roots = append(roots, root{ai, t, who, i})
				}
			}
		}
	}
	return mck.FuncSpace{N: uint64(len(roots)), F: func(idx uint64, c *mck.Ctx) {
		rt := roots[idx]
		ba, bb := bufs[rt.a], bufs[(rt.a+7)%len(bufs)]
		if tier != "thorough" && rt.a%3 != 0 && len(ba.data) != 9 {
			c.Skip() // quick: every third first buffer and the longest ones
			return
		}
		opsA, opsB := opsFor(len(ba.data)), opsFor(len(bb.data))
		nops := len(opsA)
		if len(opsB) < nops {
			nops = len(opsB)
		}
		if rt.o1 >= nops || (rt.who1 == 1 && rt.t > 0) {
			c.Skip() // B cannot be operated on before it exists
			return
		}
		who := make([]int, D)
		sel := make([]int, D)
		who[0], sel[0] = rt.who1, rt.o1
		var n uint64
		stop := false
		run := func() {
			workA, workB := workCopy(ba.data), workCopy(bb.data)
			rA := reader.NewReader(workA)
			mA, mB := &ref{buf: ba.data}, &ref{buf: bb.data}
			var rB *reader.Reader
			fail := func(k int, sig, msg string) {
				var p []string
				for j := 0; j < k; j++ {
					p = append(p, fmt.Sprintf("%c.%s", 'A'+who[j], map[int][]op{0: opsA, 1: opsB}[who[j]][sel[j]]))
				}
				c.Violation("two:"+sig, msg, map[string]interface{}{"buffer_A": fmt.Sprintf("% x", ba.data), "buffer_B": fmt.Sprintf("% x", bb.data), "B_created_before_step": rt.t, "path": p})
				stop = true
			}
			for k := 0; k < D; k++ {
				if k == rt.t {
					rB = reader.NewReader(workB)
				}
				if who[k] == 1 && rB == nil {
					return // not a sequence of this space
				}
				var sig, msg string
				if who[k] == 0 {
					sig, msg = step(rA, mA, workA, ba.data, opsA[sel[k]])
				} else {
					sig, msg = step(rB, mB, workB, bb.data, opsB[sel[k]])
				}
				if sig != "" {
					fail(k, sig, msg)
					return
				}
				if rA.Len() != len(ba.data)-mA.pos || rA.ReadCount() != mA.pos {
					fail(k+1, "reader:other-reader-disturbed", fmt.Sprintf("after step %d reader A reports Len()=%d ReadCount()=%d, its own history says %d / %d", k, rA.Len(), rA.ReadCount(), len(ba.data)-mA.pos, mA.pos))
					return
				}
				if rB != nil && (rB.Len() != len(bb.data)-mB.pos || rB.ReadCount() != mB.pos) {
					fail(k+1, "reader:other-reader-disturbed", fmt.Sprintf("after step %d reader B reports Len()=%d ReadCount()=%d, its own history says %d / %d", k, rB.Len(), rB.ReadCount(), len(bb.data)-mB.pos, mB.pos))
					return
				}
			}
			if rt.t == D { // B created after the last step: A must not notice
				rB = reader.NewReader(workB)
				if rA.Len() != len(ba.data)-mA.pos || rA.ReadCount() != mA.pos || rB.Len() != len(bb.data) || rB.ReadCount() != 0 {
					fail(D, "reader:other-reader-disturbed", "creating reader B after A's last operation changed what A (or B) reports")
					return
				}
			}
			n++
		}
		var rec func(d int)
		rec = func(d int) {
			if stop {
				return
			}
			if d == D {
				run()
				return
			}
			for w := 0; w < 2; w++ {
				for i := 0; i < nops; i++ {
					who[d], sel[d] = w, i
					rec(d + 1)
				}
			}
		}
		rec(1)
		c.Transitions(n * uint64(D))
		c.Count("sequences", n)
		if n > 0 {
			c.Nontrivial(mck.Hash64([]byte(fmt.Sprint(rt))))
		}
		c.Depth(uint64(D))
		if idx%211 == 0 {
			c.Sample(func() interface{} {
				return map[string]interface{}{"buffer_A": fmt.Sprintf("% x", ba.data), "buffer_B": fmt.Sprintf("% x", bb.data), "B_created_before_step": rt.t, "then": fmt.Sprintf("all %d-step continuations over 2 readers x %d ops", D-1, nops)}
			})
		}
	}}
}

func main() {
	mck.Main(map[string]func(string) mck.Space{"bfs": bfsSpace, "seq": seqSpace, "wide": wideSpace, "two": twoSpace})
}

// prod: C14 - the raw-socket producer delivers every message once, unmodified and in order,
// across every bounded sequence of sink faults. The real Producer.Run / RawSocket code talks to
// real loopback sockets; the harness is the sink and injects the faults at quiescent points
// (the producer is blocked on its unbuffered input channel), with kernel-state barriers
// (TCP_INFO) instead of sleeps.
package main

import (
	"bytes"
	"fmt"
	"io"
	"log"
	"net"
	"os"
	"path/filepath"
	"runtime"
	"strings"
	"sync"
	"sync/atomic"
	"syscall"
	"time"
	"unsafe"

	"github.com/EdgeCast/vflow/producer"
	"github.com/EdgeCast/vflow/zzverif/mck"
	"github.com/EdgeCast/vflow/zzverif/sched"
	"github.com/EdgeCast/vflow/zzverif/venv"
)

var tmpDirOnce string

func tmpDir() string {
	if tmpDirOnce == "" {
		d := os.Getenv("VERIF_TMP")
		if d == "" {
			d = os.TempDir()
		}
		p, err := os.MkdirTemp(d, "prodw")
		if err != nil {
			panic(err)
		}
		tmpDirOnce = p
	}
	return tmpDirOnce
}

// actions between two messages
const (
	aNone = iota
	aFIN  // sink closes the connection (FIN)
	aRST  // sink resets the connection (SO_LINGER 0)
	aDown // sink listener goes away (and the connection is reset): redial is refused
	aUp   // sink listener comes back
	nActions
)

var actNames = []string{"-", "FIN", "RST", "DOWN", "UP"}

// messages returns the messages to hand over and pristine copies of them for the oracle.
func messages(kind int) (hand, want [][]byte) {
	hand = messagesOf(kind)
	for _, m := range hand {
		want = append(want, append([]byte{}, m...))
	}
	return
}

const nKinds = 4

func messagesOf(kind int) [][]byte {
	big := bytes.Repeat([]byte(`{"k":"0123456789abcdef"},`), 2800) // ~70 KB
	switch kind {
	case 0:
		return [][]byte{[]byte(`{"n":1}`), []byte(`{"n":2,"v":"x"}`), []byte(`{"n":3}`), []byte(`{"n":4,"l":[1,2]}`), []byte(`{"n":5}`), []byte(`{"n":6}`)}
	case 1: // per cent sequences
		return [][]byte{[]byte(`{"n":1,"v":"100%"}`), []byte(`{"n":2,"v":"%d %s %v"}`), []byte(`{"n":3,"v":"%%"}`), []byte(`{"n":4,"v":"%"}`), []byte(`{"n":5,"v":"%!d(MISSING)"}`), []byte(`{"n":6,"v":"%5.2f%x"}`)}
	case 3: // a batching caller: the messages are adjacent sub-slices of ONE buffer (each has spare capacity: its successors)
		var buf []byte
		var cuts []int
		for _, m := range messagesOf(0) {
			buf = append(buf, m...)
			cuts = append(cuts, len(buf))
		}
		var out [][]byte
		a := 0
		for _, b := range cuts {
			out = append(out, buf[a:b])
			a = b
		}
		return out
	default: // sizes: empty, multi-kilobyte, 70 KB
		return [][]byte{[]byte(`{"n":1}`), append([]byte(`{"n":2,"big":[`), append(big, []byte(`0]}`)...)...), []byte(``), append([]byte(`{"n":4,"kb":"`), append(bytes.Repeat([]byte("y"), 5000), []byte(`"}`)...)...), []byte(`{"n":5}`), []byte(`{"n":6}`)}
	}
}

type tcpInfoState struct{ state uint8 }

func tcpState(c net.Conn) int {
	tc, ok := c.(*net.TCPConn)
	if !ok {
		return -1
	}
	rc, err := tc.SyscallConn()
	if err != nil {
		return -1
	}
	st := -1
	rc.Control(func(fd uintptr) {
		var info [232]byte
		l := uint32(len(info))
		_, _, e := syscall.Syscall6(syscall.SYS_GETSOCKOPT, fd, syscall.IPPROTO_TCP, syscall.TCP_INFO, uintptr(unsafe.Pointer(&info[0])), uintptr(unsafe.Pointer(&l)), 0)
		if e == 0 {
			st = int(info[0])
		}
	})
	return st
}

// producerIdle: the producer goroutine is parked in its channel receive inside inputMsg, i.e. it has
// finished (delivered or given up on) every message handed over so far. Read off the runtime's own
// goroutine dump - a state barrier, not a timing assumption.
func producerIdle() bool {
	buf := make([]byte, 1<<16)
	n := runtime.Stack(buf, true)
	for _, g := range strings.Split(string(buf[:n]), "\n\n") {
		if strings.Contains(g, "producer.(*RawSocket).inputMsg") {
			return strings.Contains(strings.SplitN(g, "\n", 2)[0], "[chan receive")
		}
	}
	return true // inputMsg has returned
}

func waitIdle() bool {
	for k := 0; k < 100000; k++ {
		if producerIdle() {
			return true
		}
		time.Sleep(100 * time.Microsecond)
	}
	return false
}

// sendQueueEmpty: every octet the producer wrote on its current connection has been acknowledged by
// the peer's kernel (SIOCOUTQ == 0), i.e. it sits in the sink's receive queue or has been read.
func sendQueueEmpty(c net.Conn) bool {
	tc, ok := c.(*net.TCPConn)
	if !ok {
		return true
	}
	rc, err := tc.SyscallConn()
	if err != nil {
		return true
	}
	empty := true
	rc.Control(func(fd uintptr) {
		var n int32
		_, _, e := syscall.Syscall(syscall.SYS_IOCTL, fd, 0x5411 /* TIOCOUTQ */, uintptr(unsafe.Pointer(&n)))
		if e == 0 && n > 0 {
			empty = false
		}
	})
	return empty
}

// settle is the barrier used before a fault and before the final comparison: wait (kernel state,
// not time) until nothing the producer wrote is still in flight, then read everything that arrived.
func (s *sink) settle(p *producer.Producer) {
	if pc := producer.VerifConn(p); pc != nil {
		for k := 0; k < 10000 && tcpState(pc) == 1 && !sendQueueEmpty(pc); k++ {
			s.drain(0) // keep the receive window open for large messages
			time.Sleep(200 * time.Microsecond)
		}
	}
	s.drain(0)
}

// sink: a TCP listener whose accepted connections are read by the harness
type sink struct {
	addr          string
	ln            net.Listener
	conns         []net.Conn // accepted, in order
	bufs          [][]byte   // bytes received per connection
	lastAcceptErr error
}

var portCounter int

// ownPort hands out ports from a range that belongs to this worker process alone and lies below the
// kernel's ephemeral range: a producer that keeps re-dialling a sink that is down must never reach
// the sink of another case (another process would otherwise get the freed ephemeral port).
func ownPort() int {
	portCounter++
	return 12000 + int(mck.Shard)*600 + portCounter%600
}

// loopAddr: this worker's own loopback address (see mck.LoopAddr): sinks of check runs going on at the same
// time cannot be reached by each other's producers.
func loopAddr() net.IP { a := mck.LoopAddr(); return net.IPv4(a[0], a[1], a[2], a[3]) }

func newSink() *sink {
	for k := 0; k < 600; k++ {
		ln, err := net.Listen("tcp4", fmt.Sprintf("%s:%d", loopAddr(), ownPort()))
		if err == nil {
			return &sink{addr: ln.Addr().String(), ln: ln}
		}
	}
	panic("no free port in this worker's range")
}

// acceptNow accepts every connection that sits in the backlog, without any deadline (the listener
// descriptor is non-blocking: EAGAIN means the backlog is empty).
func (s *sink) acceptNow() {
	if s.ln == nil {
		return
	}
	rc, err := s.ln.(*net.TCPListener).SyscallConn()
	if err != nil {
		return
	}
	for {
		nfd := -1
		rc.Control(func(fd uintptr) {
			n, _, e := syscall.Accept4(int(fd), syscall.SOCK_CLOEXEC)
			if e == nil {
				nfd = n
			}
		})
		if nfd < 0 {
			return
		}
		f := os.NewFile(uintptr(nfd), "sink-conn")
		c, err := net.FileConn(f)
		f.Close()
		if err != nil {
			return
		}
		s.conns = append(s.conns, c)
		s.bufs = append(s.bufs, nil)
	}
}

// acceptPending waits (kernel readiness, generous limit) until at least one connection has been
// accepted in total, then takes whatever else is pending.
func (s *sink) acceptPending(wait time.Duration) {
	deadline := time.Now().Add(wait)
	for {
		s.acceptNow()
		if len(s.conns) > 0 || time.Now().After(deadline) {
			return
		}
		time.Sleep(200 * time.Microsecond)
	}
}

// readNow appends everything that is in the connection's receive queue (non-blocking reads, no deadline).
func readNow(c net.Conn, dst []byte) []byte {
	tc, ok := c.(*net.TCPConn)
	if !ok {
		return dst
	}
	rc, err := tc.SyscallConn()
	if err != nil {
		return dst
	}
	buf := make([]byte, 1<<18)
	for {
		n := 0
		rc.Control(func(fd uintptr) {
			k, e := syscall.Read(int(fd), buf)
			if e == nil && k > 0 {
				n = k
			}
		})
		if n <= 0 {
			return dst
		}
		dst = append(dst, buf[:n]...)
	}
}

// drain reads whatever has arrived on every open connection.
func (s *sink) drain(expect int) {
	s.acceptNow()
	for i, c := range s.conns {
		if c != nil {
			s.bufs[i] = readNow(c, s.bufs[i])
		}
	}
}

func (s *sink) closeConns(rst bool) {
	for i, c := range s.conns {
		if c == nil {
			continue
		}
		if rst {
			c.(*net.TCPConn).SetLinger(0)
		}
		c.Close()
		s.conns[i] = nil
	}
}

func (s *sink) down() {
	if s.ln != nil {
		s.ln.Close()
		s.ln = nil
	}
}

func (s *sink) up() {
	if s.ln != nil {
		return
	}
	for i := 0; i < 200; i++ {
		ln, err := net.Listen("tcp4", s.addr)
		if err == nil {
			s.ln = ln
			return
		}
		time.Sleep(5 * time.Millisecond)
	}
	panic("cannot re-open the sink listener on " + s.addr)
}

type faultCase struct {
	kind    int
	retry   int
	actions []int // action before message i (index 0 unused)
}

func (f faultCase) String() string {
	var a []string
	for _, x := range f.actions[1:] {
		a = append(a, actNames[x])
	}
	return fmt.Sprintf("messages=%d retry-max=%d faults=[%s]", f.kind, f.retry, strings.Join(a, " "))
}

func tcpSpace(tier string) mck.Space {
	const nmsg = 6
	// all action sequences over positions 1..5 with at most 2 (thorough 3) non-none actions
	maxF := 2
	if tier == "thorough" {
		maxF = 3
	}
	var seqs [][]int
	var rec func(pos int, cur []int, nf int)
	rec = func(pos int, cur []int, nf int) {
		if pos == nmsg {
			seqs = append(seqs, append([]int{}, cur...))
			return
		}
		for a := 0; a < nActions; a++ {
			if a != aNone && nf == maxF {
				continue
			}
			k := nf
			if a != aNone {
				k++
			}
			rec(pos+1, append(cur, a), k)
		}
	}
	rec(1, []int{aNone}, 0)
	dims := mck.Radix{uint64(len(seqs)), 3, nKinds}
	return mck.FuncSpace{N: dims.Size(), F: func(idx uint64, c *mck.Ctx) {
		d := dims.Digits(idx)
		fc := faultCase{kind: d[2], retry: d[1], actions: seqs[d[0]]}
		// an UP without a preceding DOWN is a no-op: skip the duplicates
		down := false
		for _, a := range fc.actions {
			if a == aUp && !down {
				c.Skip()
				return
			}
			if a == aDown {
				down = true
			}
			if a == aUp {
				down = false
			}
		}
		t0 := time.Now()
		runTCPCase(c, fc)
		if d := time.Since(t0); d > 300*time.Millisecond && os.Getenv("VERIF_SLOW") != "" {
			fmt.Fprintf(os.Stderr, "slow case %d (%v): %s\n", idx, d, fc.String())
		}
	}}
}

func runTCPCase(c *mck.Ctx, fc faultCase) {
	hand, msgs := messages(fc.kind)
	desc := func() interface{} { return map[string]interface{}{"case": fc.String(), "protocol": "tcp"} }
	c.SetCase(desc)
	s := newSink()
	defer func() {
		s.closeConns(true)
		s.down()
	}()
	cfg := filepath.Join(tmpDir(), "mq.conf")
	os.WriteFile(cfg, []byte(fmt.Sprintf("url: %s\nprotocol: tcp\nretry-max: %d\n", s.addr, fc.retry)), 0644)
	p := producer.NewProducer("rawSocket")
	p.MQConfigFile = cfg
	var ec uint64
	p.MQErrorCount = &ec
	p.Logger = log.New(io.Discard, "", 0)
	p.Chan = make(chan []byte) // unbuffered: a completed hand-over means the previous message is done
	p.Topic = "t"
	done := make(chan error, 1)
	go func() { done <- p.Run() }()
	for k := 0; k < 10 && len(s.conns) == 0; k++ {
		s.acceptPending(2 * time.Second)
		select {
		case err := <-done:
			// setup failed (it logs and returns the error): not a delivery matter, but the harness cannot go on
			fmt.Fprintf(os.Stderr, "prod harness: Producer.Run returned before connecting: %v (case %s)\n", err, fc.String())
			os.Exit(3)
		default:
		}
	}
	if len(s.conns) != 1 {
		c.Violation("producer:no-initial-connection", fmt.Sprintf("the producer did not connect to the sink within 20 s (connections=%d, last accept error: %v)", len(s.conns), s.lastAcceptErr), desc())
		return
	}
	expectBytes := 0
	sinkUp := true
	handed := 0
	for i, m := range msgs {
		if i > 0 {
			// the previous message has been dealt with completely before anything else happens
			if !waitIdle() {
				c.Violation("producer:stuck", fmt.Sprintf("the producer was still busy with message %d after 10 s", i), desc())
				return
			}
			s.acceptNow() // a connection the producer re-dialled is in the backlog
			switch fc.actions[i] {
			case aFIN, aRST:
				s.settle(p)
				s.closeConns(fc.actions[i] == aRST)
				// barrier: the producer's socket has seen the FIN / RST
				if pc := producer.VerifConn(p); pc != nil {
					for k := 0; k < 4000; k++ {
						if st := tcpState(pc); st != 1 { // != ESTABLISHED
							break
						}
						time.Sleep(500 * time.Microsecond)
					}
				}
			case aDown:
				s.settle(p)
				s.down()
				s.closeConns(true)
				sinkUp = false
				if pc := producer.VerifConn(p); pc != nil {
					for k := 0; k < 4000; k++ {
						if st := tcpState(pc); st != 1 {
							break
						}
						time.Sleep(500 * time.Microsecond)
					}
				}
			case aUp:
				s.up()
				sinkUp = true
			}
		}
		select {
		case p.Chan <- hand[i]:
			handed++
		case <-time.After(10 * time.Second):
			c.Violation("producer:stuck", fmt.Sprintf("the producer did not take message %d within 10 s", i+1), desc())
			return
		}
		expectBytes += len(m) + 1
		_ = sinkUp
	}
	close(p.Chan)
	select {
	case <-done:
	case <-time.After(10 * time.Second):
		c.Violation("producer:does-not-return", "Run did not return after the channel was closed", desc())
		return
	}
	s.acceptNow()
	s.settle(p)
	// oracle: per connection, split at newline; an unterminated tail of a connection is not a message
	var got [][]byte
	for _, b := range s.bufs {
		parts := bytes.Split(b, []byte("\n"))
		got = append(got, parts[:len(parts)-1]...)
	}
	// in-order, duplicate-free, byte-identical subsequence of msgs
	j := 0
	var lost []int
	for _, g := range got {
		found := false
		for j < len(msgs) {
			if bytes.Equal(g, msgs[j]) {
				found = true
				j++
				break
			}
			lost = append(lost, j+1)
			j++
		}
		if !found {
			show := string(g)
			if len(show) > 120 {
				show = show[:120] + "..."
			}
			cls := "corrupted-or-reordered"
			for _, m := range msgs {
				if bytes.Equal(g, m) {
					cls = "duplicate-or-reordered"
				}
			}
			dd := desc().(map[string]interface{})
			dd["received_line"] = show
			dd["received_count"] = len(got)
			c.Violation(fmt.Sprintf("producer:tcp:%s:messages%d", cls, fc.kind), fmt.Sprintf("the sink received a line that is not the next message handed over (in order, unmodified): %q", show), dd)
			return
		}
	}
	for ; j < len(msgs); j++ {
		lost = append(lost, j+1)
	}
	nf := 0
	for _, a := range fc.actions {
		if a != aNone && a != aUp {
			nf++
		}
	}
	// bounded gap: without any fault nothing may be lost; around a fault the messages handed over while
	// the sink was unreachable plus at most 2 per fault may be lost
	downtime := 0
	dn := false
	for i := 1; i < len(fc.actions); i++ {
		if fc.actions[i] == aDown {
			dn = true
		}
		if fc.actions[i] == aUp {
			dn = false
		}
		if dn {
			downtime++
		}
	}
	if len(lost) > downtime+2*nf {
		dd := desc().(map[string]interface{})
		var sizes []int
		for _, b := range s.bufs {
			sizes = append(sizes, len(b))
		}
		dd["octets_per_connection"] = sizes
		dd["errors_counted"] = atomic.LoadUint64(&ec)
		dd["sink_addr"] = s.addr
		c.Violation("producer:tcp:gap", fmt.Sprintf("%d of %d messages lost (%v) with %d fault(s) and %d message(s) handed over while the sink was down", len(lost), len(msgs), lost, nf, downtime), dd)
		return
	}
	if nf == 0 && atomic.LoadUint64(&ec) != 0 {
		c.Violation("producer:tcp:error-count", fmt.Sprintf("error counter %d without any fault", ec), desc())
	}
	c.Nontrivial(mck.HashStr(fc.String()))
	c.Transitions(uint64(len(msgs)))
	c.States(1)
	c.Outcome(fmt.Sprintf("lost=%d", len(lost)))
	if len(lost) == 6 && os.Getenv("VERIF_SLOW") != "" {
		var sizes []int
		for _, b := range s.bufs {
			sizes = append(sizes, len(b))
		}
		fmt.Fprintf(os.Stderr, "lost6: %s sizes=%v ec=%d\n", fc.String(), sizes, ec)
	}
	if c.Idx%97 == 0 {
		c.Sample(func() interface{} {
			d := desc().(map[string]interface{})
			d["delivered"] = len(got)
			d["lost"] = lost
			d["errors_counted"] = ec
			d["connections"] = len(s.bufs)
			return d
		})
	}
}

// burstSpace: the producer's channel is BUFFERED as in the collector (the workers run ahead of the producer)
// and messages are handed over in bursts: b1 messages while the sink is up, the sink goes away (listener
// down + RST, seen by the producer's socket), b2 messages are queued while it is away, the producer works
// through them (state barrier: parked in its receive with an empty queue), the sink comes back, b3 more.
// Oracle: what the sink got is an in-order, duplicate-free, byte-identical subsequence of what was handed
// over, nothing of burst 1 is missing, and the producer comes to rest.
func burstSpace(tier string) mck.Space {
	dims := mck.Radix{3, 3, 3, 3, 2} // b1 1..3, b2 1..3, b3 1..3, retry-max, message kind {0, 3}
	return mck.FuncSpace{N: dims.Size(), F: func(idx uint64, c *mck.Ctx) {
		d := dims.Digits(idx)
		b1, b2, b3, retry, kind := d[0]+1, d[1]+1, d[2]+1, d[3], []int{0, 3}[d[4]]
		var hand, msgs [][]byte
		for len(hand) < b1+b2+b3 { // 6 messages per set: number the rounds to keep all messages distinct
			h, _ := messages(kind)
			for _, m := range h {
				hand = append(hand, append(append([]byte{}, m...), []byte(fmt.Sprintf("#%d", len(hand)))...))
			}
		}
		hand = hand[:b1+b2+b3]
		if kind == 3 { // adjacent sub-slices of one buffer
			var buf []byte
			var cuts []int
			for _, m := range hand {
				buf = append(buf, m...)
				cuts = append(cuts, len(buf))
			}
			a := 0
			for i, b := range cuts {
				hand[i] = buf[a:b]
				a = b
			}
		}
		for _, m := range hand {
			msgs = append(msgs, append([]byte{}, m...))
		}
		desc := func() interface{} {
			return map[string]interface{}{"protocol": "tcp", "bursts": []int{b1, b2, b3}, "retry-max": retry, "messages": kind, "case": fmt.Sprintf("%d up, sink away, %d queued, sink back, %d more", b1, b2, b3)}
		}
		c.SetCase(desc)
		s := newSink()
		defer func() {
			s.closeConns(true)
			s.down()
		}()
		cfg := filepath.Join(tmpDir(), "mq.conf")
		os.WriteFile(cfg, []byte(fmt.Sprintf("url: %s\nprotocol: tcp\nretry-max: %d\n", s.addr, retry)), 0644)
		p := producer.NewProducer("rawSocket")
		p.MQConfigFile = cfg
		var ec uint64
		p.MQErrorCount = &ec
		p.Logger = log.New(io.Discard, "", 0)
		p.Chan = make(chan []byte, 16)
		p.Topic = "t"
		done := make(chan error, 1)
		go func() { done <- p.Run() }()
		defer func() { // no producer goroutine may outlive its case: the idle barrier looks for THE goroutine in inputMsg
			close(p.Chan)
			select {
			case <-done:
			case <-time.After(10 * time.Second):
				fmt.Fprintln(os.Stderr, "prod harness: Run did not return after the channel was closed")
				os.Exit(3)
			}
		}()
		for k := 0; k < 10 && len(s.conns) == 0; k++ {
			s.acceptPending(2 * time.Second)
			select {
			case err := <-done:
				fmt.Fprintf(os.Stderr, "prod harness: Producer.Run returned before connecting: %v\n", err)
				os.Exit(3)
			default:
			}
		}
		if len(s.conns) != 1 {
			c.Violation("producer:no-initial-connection", fmt.Sprintf("the producer did not connect to the sink within 20 s (connections=%d)", len(s.conns)), desc())
			return
		}
		rest := func(what string) bool { // the producer has worked through its queue and is parked in the receive
			for k := 0; k < 100000; k++ {
				if len(p.Chan) == 0 && producerIdle() {
					return true
				}
				time.Sleep(100 * time.Microsecond)
			}
			c.Violation("producer:burst:never-at-rest", "the producer did not come to rest within 10 s "+what+fmt.Sprintf(" (queue length %d)", len(p.Chan)), desc())
			return false
		}
		i := 0
		for ; i < b1; i++ {
			p.Chan <- hand[i]
		}
		if !rest("after the first burst") {
			return
		}
		s.settle(p)
		s.down()
		s.closeConns(true)
		if pc := producer.VerifConn(p); pc != nil {
			for k := 0; k < 4000; k++ {
				if st := tcpState(pc); st != 1 {
					break
				}
				time.Sleep(500 * time.Microsecond)
			}
		}
		for ; i < b1+b2; i++ {
			p.Chan <- hand[i]
		}
		if !rest("while the sink was away") {
			return
		}
		s.up()
		for ; i < len(hand); i++ {
			p.Chan <- hand[i]
		}
		if !rest("after the sink came back") {
			return
		}
		s.acceptNow()
		s.settle(p)
		var got [][]byte
		for _, b := range s.bufs {
			parts := bytes.Split(b, []byte("\n"))
			got = append(got, parts[:len(parts)-1]...)
		}
		show := func() []string {
			var lines []string
			for _, x := range got {
				lines = append(lines, string(x))
			}
			return lines
		}
		j := 0
		for gi, g := range got {
			found := false
			for j < len(msgs) && !found {
				found = bytes.Equal(g, msgs[j])
				j++
			}
			if !found {
				dd := desc().(map[string]interface{})
				dd["received"] = show()
				c.Violation("producer:burst:out-of-order-duplicate-or-altered", fmt.Sprintf("line %d at the sink (%q) is not a later message than the lines before it", gi+1, string(g)), dd)
				return
			}
		}
		for k := 0; k < b1; k++ {
			if k >= len(got) || !bytes.Equal(got[k], msgs[k]) {
				dd := desc().(map[string]interface{})
				dd["received"] = show()
				c.Violation("producer:burst:lost-without-fault", fmt.Sprintf("message %d, handed over before any fault, did not reach the sink in its place", k+1), dd)
				return
			}
		}
		c.Nontrivial(mck.Hash64([]byte(fmt.Sprint(d))))
		c.States(1)
		c.Transitions(uint64(len(msgs)))
		c.Outcome(fmt.Sprintf("delivered=%d/%d", len(got), len(msgs)))
		if idx%11 == 0 {
			c.Sample(desc)
		}
	}}
}

// moveSpace: the sink is known to the producer by NAME. It goes away and comes back under the same name and port on
// ANOTHER address (a fail-over, a rescheduled pod, a re-pointed DNS record): once it is reachable again under its
// name, delivery must resume.
func moveSpace(tier string) mck.Space {
	dims := mck.Radix{3, 3} // retry-max, messages before the move (2..4)
	return mck.FuncSpace{N: dims.Size(), F: func(idx uint64, c *mck.Ctx) {
		d := dims.Digits(idx)
		retry, before := d[0], d[1]+2
		hand, msgs := messages(0)
		hand = append(hand, hand...)
		for i := range hand { // 12 distinct messages
			hand[i] = append(append([]byte{}, hand[i]...), []byte(fmt.Sprintf("#%d", i))...)
		}
		msgs = nil
		for _, m := range hand {
			msgs = append(msgs, append([]byte{}, m...))
		}
		desc := func() interface{} {
			return map[string]interface{}{"protocol": "tcp", "case": fmt.Sprintf("sink configured by name; %d messages, then it moves to another address, then %d more", before, len(msgs)-before), "retry-max": retry}
		}
		c.SetCase(desc)
		name := fmt.Sprintf("sink-%d.verif.invalid", os.Getpid())
		a := mck.LoopAddr()
		ip1 := net.IPv4(a[0], a[1], a[2], 1).String()
		ip2 := net.IPv4(a[0], a[1], a[2], 2).String()
		s1 := newSink() // on ip1
		_, port, _ := net.SplitHostPort(s1.addr)
		venv.SetHost(name, ip1)
		var s2 *sink
		defer func() {
			s1.closeConns(true)
			s1.down()
			if s2 != nil {
				s2.closeConns(true)
				s2.down()
			}
		}()
		cfg := filepath.Join(tmpDir(), "mq.conf")
		os.WriteFile(cfg, []byte(fmt.Sprintf("url: %s\nprotocol: tcp\nretry-max: %d\n", net.JoinHostPort(name, port), retry)), 0644)
		p := producer.NewProducer("rawSocket")
		p.MQConfigFile = cfg
		var ec uint64
		p.MQErrorCount = &ec
		p.Logger = log.New(io.Discard, "", 0)
		p.Chan = make(chan []byte)
		p.Topic = "t"
		done := make(chan error, 1)
		go func() { done <- p.Run() }()
		defer func() {
			close(p.Chan)
			select {
			case <-done:
			case <-time.After(10 * time.Second):
				fmt.Fprintln(os.Stderr, "prod harness: Run did not return after the channel was closed")
				os.Exit(3)
			}
		}()
		for k := 0; k < 10 && len(s1.conns) == 0; k++ {
			s1.acceptPending(2 * time.Second)
		}
		if len(s1.conns) != 1 {
			c.Violation("producer:no-initial-connection", "the producer did not connect to the sink it was given by name", desc())
			return
		}
		give := func(i int) bool {
			select {
			case p.Chan <- hand[i]:
			case <-time.After(10 * time.Second):
				c.Violation("producer:stuck", fmt.Sprintf("the producer did not take message %d within 10 s", i+1), desc())
				return false
			}
			return waitIdle()
		}
		for i := 0; i < before; i++ {
			if !give(i) {
				return
			}
		}
		s1.settle(p)
		// the sink moves: gone at the old address (listener closed, connection reset - seen by the producer's socket), up at
		// the new one under the same name and port
		s1.down()
		s1.closeConns(true)
		if pc := producer.VerifConn(p); pc != nil {
			for k := 0; k < 4000; k++ {
				if st := tcpState(pc); st != 1 {
					break
				}
				time.Sleep(500 * time.Microsecond)
			}
		}
		ln, err := net.Listen("tcp4", net.JoinHostPort(ip2, port))
		if err != nil {
			fmt.Fprintln(os.Stderr, "prod harness: cannot listen on the second address:", err)
			os.Exit(3)
		}
		s2 = &sink{addr: ln.Addr().String(), ln: ln}
		venv.SetHost(name, ip2)
		for i := before; i < len(hand); i++ {
			if !give(i) {
				return
			}
			s2.acceptNow()
		}
		s2.acceptNow()
		s2.settle(p)
		var got [][]byte
		for _, b := range append(append([][]byte{}, s1.bufs...), s2.bufs...) {
			parts := bytes.Split(b, []byte("\n"))
			got = append(got, parts[:len(parts)-1]...)
		}
		c.Nontrivial(mck.Hash64([]byte(fmt.Sprint("move", d))))
		c.States(1)
		c.Transitions(uint64(len(msgs)))
		j := 0
		for gi, g := range got {
			found := false
			for j < len(msgs) && !found {
				found = bytes.Equal(g, msgs[j])
				j++
			}
			if !found {
				c.Violation("producer:move:out-of-order-duplicate-or-altered", fmt.Sprintf("line %d at the sinks (%q) is not a later message than the lines before it", gi+1, string(g)), desc())
				return
			}
		}
		if len(got) == 0 || !bytes.Equal(got[len(got)-1], msgs[len(msgs)-1]) {
			dd := desc().(map[string]interface{})
			dd["lines_at_the_new_address"] = len(s2.bufs)
			dd["delivered"] = len(got)
			c.Violation("producer:move:delivery-does-not-resume", fmt.Sprintf("the sink has been reachable again under its name for %d messages; the last one handed over did not arrive (%d of %d delivered in all)", len(msgs)-before, len(got), len(msgs)), dd)
			return
		}
		c.Outcome(fmt.Sprintf("resumed, %d of %d delivered", len(got), len(msgs)))
		c.Sample(desc)
	}}
}

// producerIn reports whether the producer goroutine is parked in the given wait state (the bracketed word of the
// runtime's goroutine dump, e.g. "IO wait" = blocked in a socket write).
func producerIn(state string) bool {
	buf := make([]byte, 1<<16)
	n := runtime.Stack(buf, true)
	for _, g := range strings.Split(string(buf[:n]), "\n\n") {
		if strings.Contains(g, "producer.(*RawSocket).inputMsg") {
			return strings.Contains(strings.SplitN(g, "\n", 2)[0], "["+state)
		}
	}
	return false
}

// stallSpace: a sink that stays connected but STOPS READING while more is in flight than the socket buffers
// hold - the producer blocks in its write (state barrier: its goroutine is in "IO wait"), stays there for a
// while (quick 6 s, thorough 35 s of real time: long enough for a plausible write time-out to fire), then the
// sink reads on. Every message must arrive exactly once, whole and in order: a blocked write is not a failed one.
func stallSpace(tier string) mck.Space {
	stall := 6 * time.Second
	if tier == "thorough" {
		stall = 35 * time.Second
	}
	dims := mck.Radix{2} // retry-max 0 / 2
	return mck.FuncSpace{N: dims.Size(), F: func(idx uint64, c *mck.Ctx) {
		retry := []int{0, 2}[idx]
		const nmsg, size = 4, 6 << 20
		var hand, msgs [][]byte
		for i := 0; i < nmsg; i++ {
			m := make([]byte, size+i)
			for j := range m {
				m[j] = byte('a' + (j+i)%23)
			}
			copy(m, fmt.Sprintf("{\"n\":%d,\"big\":\"", i+1))
			hand = append(hand, m)
			msgs = append(msgs, append([]byte{}, m...))
		}
		desc := func() interface{} {
			return map[string]interface{}{"protocol": "tcp", "case": fmt.Sprintf("%d messages of %d MiB, the sink does not read for %v while the producer is blocked in its write", nmsg, size>>20, stall), "retry-max": retry}
		}
		c.SetCase(desc)
		s := newSink()
		defer func() {
			s.closeConns(true)
			s.down()
		}()
		cfg := filepath.Join(tmpDir(), "mq.conf")
		os.WriteFile(cfg, []byte(fmt.Sprintf("url: %s\nprotocol: tcp\nretry-max: %d\n", s.addr, retry)), 0644)
		p := producer.NewProducer("rawSocket")
		p.MQConfigFile = cfg
		var ec uint64
		p.MQErrorCount = &ec
		p.Logger = log.New(io.Discard, "", 0)
		p.Chan = make(chan []byte, 16)
		p.Topic = "t"
		done := make(chan error, 1)
		go func() { done <- p.Run() }()
		closed := false
		defer func() {
			if !closed {
				close(p.Chan)
			}
		}()
		for k := 0; k < 10 && len(s.conns) == 0; k++ {
			s.acceptPending(2 * time.Second)
		}
		if len(s.conns) != 1 {
			c.Violation("producer:no-initial-connection", "the producer did not connect to the sink", desc())
			return
		}
		for _, m := range hand {
			p.Chan <- m
		}
		// barrier: the producer is blocked in a write (the sink has not read a single octet)
		blocked := false
		for k := 0; k < 100000 && !blocked; k++ {
			blocked = producerIn("IO wait")
			if !blocked {
				time.Sleep(200 * time.Microsecond)
			}
		}
		if !blocked {
			c.Skip() // the socket buffers swallowed everything: the case does not arise on this machine
			return
		}
		c.Heartbeat()
		for t0 := time.Now(); time.Since(t0) < stall; {
			time.Sleep(500 * time.Millisecond)
			c.Heartbeat()
		}
		// the sink reads on until the producer has come to rest
		total := 0
		for _, m := range msgs {
			total += len(m) + 1
		}
		for k := 0; k < 400000; k++ {
			s.drain(0)
			if len(p.Chan) == 0 && producerIdle() && len(s.bufs) > 0 && (len(s.bufs[0]) >= total || k%50 == 49 && sendQueueEmpty(producer.VerifConn(p))) {
				s.drain(0)
				break
			}
			time.Sleep(100 * time.Microsecond)
			if k%5000 == 0 {
				c.Heartbeat()
			}
		}
		s.settle(p)
		close(p.Chan)
		closed = true
		select {
		case <-done:
		case <-time.After(10 * time.Second):
		}
		var got [][]byte
		for _, b := range s.bufs {
			parts := bytes.Split(b, []byte("\n"))
			got = append(got, parts[:len(parts)-1]...)
		}
		c.Nontrivial(mck.Hash64([]byte(fmt.Sprint("stall", retry))))
		c.States(1)
		c.Transitions(nmsg)
		if len(got) != nmsg {
			c.Violation("producer:stall:lost-or-split", fmt.Sprintf("%d lines at the sink after a stalled write, %d messages were handed over (no connection ever failed)", len(got), nmsg), desc())
			return
		}
		for i := range msgs {
			if !bytes.Equal(got[i], msgs[i]) {
				c.Violation("producer:stall:altered", fmt.Sprintf("message %d arrived with %d octets instead of %d or with other content (no connection ever failed)", i+1, len(got[i]), len(msgs[i])), desc())
				return
			}
		}
		c.Outcome("delivered whole after the stall")
		c.Sample(desc)
	}}
}

// udpSpace: udp socket configuration; the sink is a UDP listener that is up / down per message.
func udpSpace(tier string) mck.Space {
	const nmsg = 6
	dims := mck.Radix{1 << (nmsg - 1), 3, nKinds, 2} // sink down-mask for messages 2..6, retry-max, message kind, handed over one at a time / all queued before the producer starts
	return mck.FuncSpace{N: dims.Size(), F: func(idx uint64, c *mck.Ctx) {
		d := dims.Digits(idx)
		hand, msgs := messages(d[2])
		queued := d[3] == 1
		if queued && d[0] != 0 {
			c.Skip() // a burst waiting in the queue is delivered to a sink that is up
			return
		}
		desc := func() interface{} {
			return map[string]interface{}{"protocol": "udp", "sink_down_mask": fmt.Sprintf("%05b", d[0]), "retry-max": d[1], "messages": d[2], "handed_over": map[bool]string{false: "one at a time", true: "all queued before the producer starts"}[queued]}
		}
		c.SetCase(desc)
		var ln *net.UDPConn
		var err error
		for k := 0; k < 600 && ln == nil; k++ {
			ln, err = net.ListenUDP("udp4", &net.UDPAddr{IP: loopAddr(), Port: ownPort()})
		}
		if ln == nil {
			panic(err)
		}
		addr := ln.LocalAddr().(*net.UDPAddr)
		defer func() {
			if ln != nil {
				ln.Close()
			}
		}()
		cfg := filepath.Join(tmpDir(), "mq-udp.conf")
		os.WriteFile(cfg, []byte(fmt.Sprintf("url: %s\nprotocol: udp\nretry-max: %d\n", addr.String(), d[1])), 0644)
		p := producer.NewProducer("rawSocket")
		p.MQConfigFile = cfg
		var ec uint64
		p.MQErrorCount = &ec
		p.Logger = log.New(io.Discard, "", 0)
		p.Chan = make(chan []byte)
		if queued {
			p.Chan = make(chan []byte, nmsg+1)
		}
		done := make(chan error, 1)
		if !queued {
			go func() { done <- p.Run() }()
		}
		var got [][]byte
		read := func() {
			if ln == nil {
				return
			}
			buf := make([]byte, 1<<17)
			rc, err := ln.SyscallConn()
			if err != nil {
				return
			}
			for {
				n := -1
				rc.Control(func(fd uintptr) {
					k, _, e := syscall.Recvfrom(int(fd), buf, syscall.MSG_DONTWAIT)
					if e == nil {
						n = k
					}
				})
				if n < 0 {
					return
				}
				got = append(got, append([]byte{}, buf[:n]...))
			}
		}
		sent := 0
		for i, m := range msgs {
			if len(m)+1 > 65000 {
				continue // larger than a UDP datagram: outside the udp configuration
			}
			if i > 0 && !queued {
				waitIdle()
				down := d[0]&(1<<(i-1)) != 0
				if down && ln != nil {
					read()
					ln.Close()
					ln = nil
				} else if !down && ln == nil {
					for k := 0; k < 200 && ln == nil; k++ {
						ln, _ = net.ListenUDP("udp4", addr)
						if ln == nil {
							time.Sleep(5 * time.Millisecond)
						}
					}
				}
			}
			select {
			case p.Chan <- hand[i]:
				sent++
			case <-time.After(10 * time.Second):
				c.Violation("producer:stuck", "udp: the producer did not take a message within 10 s", desc())
				return
			}
		}
		close(p.Chan)
		if queued {
			go func() { done <- p.Run() }()
		}
		select {
		case <-done:
		case <-time.After(10 * time.Second):
			c.Violation("producer:does-not-return", "udp: Run did not return", desc())
			return
		}
		read()
		for k := 0; k < 25000 && d[0] == 0 && len(got) < sent; k++ { // kernel delivery, generous limit
			time.Sleep(200 * time.Microsecond)
			read()
		}
		j := 0
		for _, g := range got {
			found := false
			for j < len(msgs) {
				if bytes.Equal(g, append(append([]byte{}, msgs[j]...), '\n')) {
					found = true
					j++
					break
				}
				j++
			}
			if !found {
				show := string(g)
				if len(show) > 120 {
					show = show[:120]
				}
				c.Violation(fmt.Sprintf("producer:udp:corrupted-or-reordered:messages%d", d[2]), fmt.Sprintf("datagram is not the next message + newline: %q", show), desc())
				return
			}
		}
		if d[0] == 0 && len(got) != sent {
			c.Violation("producer:udp:lost-without-fault", fmt.Sprintf("%d of %d messages arrived although the sink was always up", len(got), sent), desc())
		}
		c.Nontrivial(mck.HashStr(fmt.Sprint(d)))
		c.States(1)
		c.Transitions(uint64(sent))
		c.Outcome(fmt.Sprintf("delivered=%d/%d", len(got), sent))
		if c.Idx%53 == 0 {
			c.Sample(desc)
		}
	}}
}

// prod.two (scheduler space, built with the producer package fully instrumented): the collector runs one producer
// per protocol in ONE process. Two rawSocket producers, each with its own (virtual) sink and its own queue holding a
// burst; every interleaving of the two - a scheduling point at every queue operation and before every write enters
// the "kernel". What a sink receives must be exactly its own producer's messages, each newline-terminated, in order.
func twoSpace(tier string) mck.Space {
	sets := [][2][]string{
		{{`{"p":1,"n":1}`, `{"p":1,"n":2,"pad":"xxxxxxxxxxxxxxxx"}`}, {`{"p":2,"n":1,"pad":"yyyyyyyy"}`, `{"p":2,"n":2}`}},
		{{`{"p":1}`, `{"p":1,"n":2}`, `{"p":1,"n":3}`}, {`{"q":"100%d %s"}`}},
		{{`a`}, {`bbbbbbbbbbbbbbbbbbbbbbbbbbbbbbbbbbbbbbbbbbbbbbbbbbbbbbbbbbbbbbbbbbbbbbbb`, `c`}},
	}
	return mck.FuncSpace{N: uint64(len(sets)), F: func(idx uint64, c *mck.Ctx) {
		set := sets[idx]
		desc := func() interface{} {
			return map[string]interface{}{"producers": 2, "protocol": "tcp (virtual sinks)", "messages_1": set[0], "messages_2": set[1], "deviation_bound": map[bool]int{false: 2, true: 4}[tier == "thorough"]}
		}
		c.SetCase(desc)
		var cfgs [2]string
		for i := range cfgs {
			cfgs[i] = filepath.Join(tmpDir(), fmt.Sprintf("mq-two-%d.conf", i))
			os.WriteFile(cfgs[i], []byte(fmt.Sprintf("url: sink%d.test:9555\nprotocol: tcp\nretry-max: 1\n", i)), 0644)
		}
		var obs string
		var obsMu sync.Mutex
		body := func() {
			var sinks [2]*venv.VSink
			var ids []int
			var ecs [2]uint64
			for i := 0; i < 2; i++ {
				i := i
				sinks[i] = &venv.VSink{}
				venv.SetVirtualSink(fmt.Sprintf("sink%d.test:9555", i), sinks[i])
				p := producer.NewProducer("rawSocket")
				p.MQConfigFile = cfgs[i]
				p.MQErrorCount = &ecs[i]
				p.Logger = log.New(io.Discard, "", 0)
				p.Chan = make(chan []byte, 8)
				for _, m := range set[i] {
					p.Chan <- []byte(m)
				}
				sched.ChanClose(p.Chan) // the scheduler must know: a receive on the drained queue is then enabled
				close(p.Chan)
				ids = append(ids, sched.GoNamed(fmt.Sprintf("producer %d", i+1), func() { p.Run() }))
			}
			for _, id := range ids {
				sched.Join(id)
			}
			var o []string
			for i := 0; i < 2; i++ {
				var want []string
				for _, m := range set[i] {
					want = append(want, m+"\n")
				}
				got := string(bytes.Join(sinks[i].Got, nil))
				o = append(o, got)
				if got != strings.Join(want, "") {
					sched.Fail("producer:two-producers:sink-received-something-else", fmt.Sprintf("sink %d received %q, its producer was handed %q", i+1, got, want))
				}
			}
			obsMu.Lock()
			obs = strings.Join(o, "|")
			obsMu.Unlock()
		}
		reported := map[string]bool{}
		outcomes := map[string]bool{}
		bound := 2
		if tier == "thorough" {
			bound = 4
		}
		st := sched.Explore(sched.Config{Bound: bound, OnExec: func(r *sched.Result) {
			c.States(1)
			c.Transitions(uint64(r.Steps))
			obsMu.Lock()
			outcomes[obs] = true
			obsMu.Unlock()
			if r.FailSig != "" && !reported[r.FailSig] {
				reported[r.FailSig] = true
				d := desc().(map[string]interface{})
				d["schedule"] = fmt.Sprint(r.Choices)
				c.Violation(r.FailSig, r.FailMsg, d)
			}
		}}, body)
		c.Count("executions", uint64(st.Executions))
		if !st.Complete {
			c.Incomplete()
		}
		c.Depth(uint64(st.MaxDepth))
		c.Nontrivial(mck.HashStr("two", fmt.Sprint(idx)))
		c.Outcome(fmt.Sprintf("set %d: executions=%d outcomes=%d", idx, st.Executions, len(outcomes)))
		c.Sample(desc)
	}}
}

func main() {
	mck.Main(map[string]func(string) mck.Space{"prod.tcp": tcpSpace, "prod.burst": burstSpace, "prod.stall": stallSpace, "prod.move": moveSpace, "prod.udp": udpSpace, "prod.two": twoSpace})
}

// Package vsync mirrors the parts of package sync that vflow uses. Every operation is a
// scheduling point followed by the REAL sync operation, so that the race detector sees the
// program's real happens-before edges and nothing else.
package vsync

import (
	"sync"
	"sync/atomic"

	"github.com/EdgeCast/vflow/zzverif/sched"
)

type Mutex struct {
	mu sync.Mutex
	m  sched.MutexModel
}

func (x *Mutex) Lock()   { sched.MutexPoint(sched.OpLock, &x.m, "Mutex.Lock"); x.mu.Lock() }
func (x *Mutex) Unlock() { sched.MutexPoint(sched.OpUnlock, &x.m, "Mutex.Unlock"); x.mu.Unlock() }

// TryLock: a scheduling point whose answer is the lock's state when the thread is let on; on success the real
// TryLock follows (it cannot fail then: the model mirrors the real lock).
func (x *Mutex) TryLock() bool {
	if !sched.Active() {
		return x.mu.TryLock()
	}
	if !sched.MutexTry(sched.OpTryLock, &x.m, "Mutex.TryLock") {
		return false
	}
	x.mu.Lock()
	return true
}

type RWMutex struct {
	mu sync.RWMutex
	m  sched.MutexModel
}

func (x *RWMutex) Lock()   { sched.MutexPoint(sched.OpLock, &x.m, "RWMutex.Lock"); x.mu.Lock() }
func (x *RWMutex) Unlock() { sched.MutexPoint(sched.OpUnlock, &x.m, "RWMutex.Unlock"); x.mu.Unlock() }
func (x *RWMutex) RLock()  { sched.MutexPoint(sched.OpRLock, &x.m, "RWMutex.RLock"); x.mu.RLock() }
func (x *RWMutex) RUnlock() {
	sched.MutexPoint(sched.OpRUnlock, &x.m, "RWMutex.RUnlock")
	x.mu.RUnlock()
}

func (x *RWMutex) TryLock() bool {
	if !sched.Active() {
		return x.mu.TryLock()
	}
	if !sched.MutexTry(sched.OpTryLock, &x.m, "RWMutex.TryLock") {
		return false
	}
	x.mu.Lock()
	return true
}

func (x *RWMutex) TryRLock() bool {
	if !sched.Active() {
		return x.mu.TryRLock()
	}
	if !sched.MutexTry(sched.OpTryRLock, &x.m, "RWMutex.TryRLock") {
		return false
	}
	x.mu.RLock()
	return true
}

// RLocker as in sync.
func (x *RWMutex) RLocker() sync.Locker { return (*rlocker)(x) }

type rlocker RWMutex

func (r *rlocker) Lock()   { (*RWMutex)(r).RLock() }
func (r *rlocker) Unlock() { (*RWMutex)(r).RUnlock() }

// Locker, Map: as in sync (a Map operation contains no scheduling point, it runs atomically).
type Locker = sync.Locker
type Map = sync.Map

// Once: the function may contain scheduling points, so the internal lock must be one the scheduler knows.
type Once struct {
	done uint32
	m    Mutex
}

func (o *Once) Do(f func()) {
	if atomic.LoadUint32(&o.done) == 1 {
		return
	}
	o.m.Lock()
	defer o.m.Unlock()
	if o.done == 0 {
		defer atomic.StoreUint32(&o.done, 1)
		f()
	}
}

type WaitGroup struct {
	wg sync.WaitGroup
	m  sched.WGModel
}

//go:norace
func (w *WaitGroup) add(n int32) { w.m.N += n }

func (w *WaitGroup) Add(n int) {
	sched.Point("wg.Add")
	w.add(int32(n))
	w.wg.Add(n)
}
func (w *WaitGroup) Done() {
	sched.Point("wg.Done")
	w.add(-1)
	w.wg.Done()
}
func (w *WaitGroup) Wait() {
	sched.WGWait(&w.m)
	if sched.Active() {
		w.wg.Wait()
	} else {
		w.wg.Wait()
	}
}

// Pool is a deterministic stand-in for sync.Pool. Get's answer - the most recently put item,
// the oldest one, or a fresh New() - is an environment choice (default: most recent, the
// answer most likely to expose a buffer that is still in use). A Put synchronizes-before the
// Get that returns the same item, as in sync.Pool (carried by a real atomic per item).
type Pool struct {
	New   func() interface{}
	items [256]poolItem
	n     int
}

type poolItem struct {
	v interface{}
	f *uint32 // carries the Put -> Get happens-before edge of this item
}

//go:norace
func (p *Pool) push(v interface{}) *uint32 {
	if p.n >= len(p.items) {
		return nil
	}
	f := new(uint32)
	p.items[p.n] = poolItem{v, f}
	p.n++
	return f
}

//go:norace
func (p *Pool) count() int { return p.n }

//go:norace
func (p *Pool) take(i int) (interface{}, *uint32) {
	it := p.items[i]
	for k := i; k+1 < p.n; k++ {
		p.items[k] = p.items[k+1]
	}
	p.n--
	p.items[p.n] = poolItem{}
	return it.v, it.f
}

func (p *Pool) Put(v interface{}) {
	if !sched.Active() {
		return // outside an exploration nothing is recycled: reference decodes always see fresh buffers
	}
	sched.Point("Pool.Put")
	if f := p.push(v); f != nil {
		atomic.StoreUint32(f, 1) // release
	}
}

func (p *Pool) Get() interface{} {
	sched.Point("Pool.Get")
	n := p.count()
	if !sched.Active() {
		n = 0
	}
	if n == 0 {
		if p.New == nil {
			return nil
		}
		return p.New()
	}
	alts := 2
	if n > 1 {
		alts = 3
	}
	switch sched.Choose(alts, "Pool.Get") {
	case 0:
		v, f := p.take(n - 1)
		atomic.LoadUint32(f) // acquire
		return v
	case 1:
		if p.New == nil {
			return nil
		}
		return p.New()
	}
	v, f := p.take(0)
	atomic.LoadUint32(f)
	return v
}

// Once is passed through.

// Package ref holds the reference models: wire encoders written from the RFCs and the
// expected decode computed from the abstract description of a case (never by re-parsing).
package ref

import (
	"encoding/binary"
	"fmt"
	"math"
	"net"
)

// Abstract data types (RFC 7012 section 3.1).
type AType int

const (
	TOctetArray AType = iota
	TU8
	TU16
	TU32
	TU64
	TI8
	TI16
	TI32
	TI64
	TF32
	TF64
	TBool
	TMac
	TString
	TDTSec
	TDTMilli
	TDTMicro
	TDTNano
	TIPv4
	TIPv6
	TUnknown // element present in the model with an unrecognised type name: raw octets
)

var ATypeNames = map[AType]string{TOctetArray: "octetArray", TU8: "unsigned8", TU16: "unsigned16", TU32: "unsigned32", TU64: "unsigned64",
	TI8: "signed8", TI16: "signed16", TI32: "signed32", TI64: "signed64", TF32: "float32", TF64: "float64", TBool: "boolean", TMac: "macAddress",
	TString: "string", TDTSec: "dateTimeSeconds", TDTMilli: "dateTimeMilliseconds", TDTMicro: "dateTimeMicroseconds", TDTNano: "dateTimeNanoseconds",
	TIPv4: "ipv4Address", TIPv6: "ipv6Address", TUnknown: "unknown"}

// NaturalLen is the full-size encoding length of a fixed-size type (0 = no fixed size).
func (t AType) NaturalLen() int {
	switch t {
	case TU8, TI8, TBool:
		return 1
	case TU16, TI16:
		return 2
	case TU32, TI32, TF32, TDTSec, TIPv4:
		return 4
	case TU64, TI64, TF64, TDTMilli, TDTMicro, TDTNano:
		return 8
	case TMac:
		return 6
	case TIPv6:
		return 16
	}
	return 0
}

// Interpret is the reference interpretation of a field's octets: the typed value when
// the encoding has (at least) the type's size, the raw octets when it is shorter.
func Interpret(t AType, raw []byte) interface{} {
	if n := t.NaturalLen(); n > 0 && len(raw) < n {
		return append([]byte{}, raw...)
	}
	be := func(n int) uint64 {
		var v uint64
		for _, b := range raw[:n] {
			v = v<<8 | uint64(b)
		}
		return v
	}
	switch t {
	case TU8:
		return uint8(be(1))
	case TU16:
		return uint16(be(2))
	case TU32, TDTSec:
		return uint32(be(4))
	case TU64, TDTMilli, TDTMicro, TDTNano:
		return be(8)
	case TI8:
		return int8(be(1))
	case TI16:
		return int16(be(2))
	case TI32:
		return int32(be(4))
	case TI64:
		return int64(be(8))
	case TF32:
		return math.Float32frombits(uint32(be(4)))
	case TF64:
		return math.Float64frombits(be(8))
	case TBool:
		return raw[0] == 1 // RFC 7011 6.1.5: 1 = true, 2 = false
	case TMac:
		return net.HardwareAddr(append([]byte{}, raw...))
	case TString:
		return string(raw)
	case TIPv4, TIPv6:
		return net.IP(append([]byte{}, raw...))
	}
	return append([]byte{}, raw...)
}

// Field is one template field specifier.
type Field struct {
	ID   uint16
	PEN  uint32
	Len  uint16 // 65535 = variable length (IPFIX only)
	Type AType
}

// Template is a template or options template.
type Template struct {
	ID      uint16
	Options bool
	Scope   []Field
	Fields  []Field
}

func (t Template) All() []Field { return append(append([]Field{}, t.Scope...), t.Fields...) }

// Value is the content of one field of one record.
type Value struct {
	Raw        []byte
	LongPrefix bool // variable-length: force the 3-octet length prefix
}

type Record []Value

// Set is one set / flowset of a message.
type Set struct {
	Kind       int // 0 template set, 1 data set, 2 raw set (arbitrary id + body)
	Templates  []Template
	TemplateID uint16
	Records    []Record
	Pad        int
	RawID      uint16
	RawBody    []byte
	LenDelta   int // added to the length field (malformed-input generators only)
}

const (
	SetTemplates = 0
	SetData      = 1
	SetRaw       = 2
)

// Msg is an IPFIX message or a NetFlow v9 export packet.
type Msg struct {
	V9   bool
	Hdr  [5]uint32 // IPFIX: -, ExportTime, SequenceNo, DomainID, -   V9: Count, SysUpTime, UNIXSecs, SeqNum, SrcID
	Sets []Set
}

type W struct{ B []byte }

func (w *W) U8(v uint8)     { w.B = append(w.B, v) }
func (w *W) U16(v uint16)   { w.B = append(w.B, byte(v>>8), byte(v)) }
func (w *W) U32(v uint32)   { w.B = append(w.B, byte(v>>24), byte(v>>16), byte(v>>8), byte(v)) }
func (w *W) U64(v uint64)   { w.U32(uint32(v >> 32)); w.U32(uint32(v)) }
func (w *W) Bytes(b []byte) { w.B = append(w.B, b...) }
func (w *W) Zero(n int) {
	for i := 0; i < n; i++ {
		w.B = append(w.B, 0)
	}
}

func encField(w *W, f Field, v9 bool) {
	if !v9 && f.PEN != 0 {
		w.U16(f.ID | 0x8000)
		w.U16(f.Len)
		w.U32(f.PEN)
		return
	}
	w.U16(f.ID)
	w.U16(f.Len)
}

// EncodeTemplate writes one template record (RFC 7011 3.4.1 / 3.4.2.2, RFC 3954 5.2 / 6.1).
func EncodeTemplate(w *W, t Template, v9 bool) {
	if !t.Options {
		w.U16(t.ID)
		w.U16(uint16(len(t.Fields)))
		for _, f := range t.Fields {
			encField(w, f, v9)
		}
		return
	}
	if v9 {
		w.U16(t.ID)
		w.U16(uint16(4 * len(t.Scope)))  // Option Scope Length (octets)
		w.U16(uint16(4 * len(t.Fields))) // Option Length (octets)
	} else {
		w.U16(t.ID)
		w.U16(uint16(len(t.Scope) + len(t.Fields)))
		w.U16(uint16(len(t.Scope)))
	}
	for _, f := range t.Scope {
		encField(w, f, v9)
	}
	for _, f := range t.Fields {
		encField(w, f, v9)
	}
}

// EncodeRecord writes one data record according to its template.
func EncodeRecord(w *W, t Template, r Record) {
	for i, f := range t.All() {
		v := r[i]
		if f.Len == 65535 {
			if len(v.Raw) < 255 && !v.LongPrefix {
				w.U8(uint8(len(v.Raw)))
			} else {
				w.U8(255)
				w.U16(uint16(len(v.Raw)))
			}
		}
		w.Bytes(v.Raw)
	}
}

// Encode produces the wire form.
func (m *Msg) Encode(tpls map[uint16]Template) []byte {
	w := &W{}
	if m.V9 {
		w.U16(9)
		w.U16(uint16(m.Hdr[0]))
		w.U32(m.Hdr[1])
		w.U32(m.Hdr[2])
		w.U32(m.Hdr[3])
		w.U32(m.Hdr[4])
	} else {
		w.U16(10)
		w.U16(0) // length, patched below
		w.U32(m.Hdr[1])
		w.U32(m.Hdr[2])
		w.U32(m.Hdr[3])
	}
	for _, s := range m.Sets {
		start := len(w.B)
		switch s.Kind {
		case SetTemplates:
			opt := len(s.Templates) > 0 && s.Templates[0].Options
			id := uint16(2)
			if opt {
				id = 3
			}
			if m.V9 {
				id -= 2
			}
			w.U16(id)
			w.U16(0)
			for _, t := range s.Templates {
				EncodeTemplate(w, t, m.V9)
			}
		case SetData:
			w.U16(s.TemplateID)
			w.U16(0)
			t := tpls[s.TemplateID]
			for _, r := range s.Records {
				EncodeRecord(w, t, r)
			}
		case SetRaw:
			w.U16(s.RawID)
			w.U16(0)
			w.Bytes(s.RawBody)
		}
		w.Zero(s.Pad)
		binary.BigEndian.PutUint16(w.B[start+2:], uint16(len(w.B)-start+s.LenDelta))
	}
	if !m.V9 {
		binary.BigEndian.PutUint16(w.B[2:], uint16(len(w.B)))
	}
	return w.B
}

// ExpField is one expected decoded field.
type ExpField struct {
	ID    uint16
	PEN   uint32
	Value interface{}
}

// Expected computes the records a correct decoder emits for the data sets of m,
// given the templates in force (tpls). Sets whose template is absent yield nothing.
func (m *Msg) Expected(tpls map[uint16]Template) [][]ExpField {
	var out [][]ExpField
	for _, s := range m.Sets {
		if s.Kind != SetData {
			continue
		}
		t, ok := tpls[s.TemplateID]
		if !ok {
			continue
		}
		for _, r := range s.Records {
			var rec []ExpField
			for i, f := range t.All() {
				rec = append(rec, ExpField{f.ID, f.PEN, Interpret(f.Type, r[i].Raw)})
			}
			out = append(out, rec)
		}
	}
	return out
}

// MinRecordLen is the shortest possible record of the template.
func (t Template) MinRecordLen() int {
	n := 0
	for _, f := range t.All() {
		if f.Len == 65535 {
			n++
		} else {
			n += int(f.Len)
		}
	}
	return n
}

// ValueEqual compares a decoded value with the expected one (typed, floats bit-exact).
func ValueEqual(got, want interface{}) bool {
	switch w := want.(type) {
	case float32:
		g, ok := got.(float32)
		return ok && math.Float32bits(g) == math.Float32bits(w)
	case float64:
		g, ok := got.(float64)
		return ok && math.Float64bits(g) == math.Float64bits(w)
	case []byte:
		g, ok := got.([]byte)
		return ok && string(g) == string(w)
	case net.IP:
		g, ok := got.(net.IP)
		return ok && string(g) == string(w)
	case net.HardwareAddr:
		g, ok := got.(net.HardwareAddr)
		return ok && string(g) == string(w)
	}
	return got == want
}

func Show(v interface{}) string { return fmt.Sprintf("%T(%v)", v, v) }

package ref

import (
	"encoding/base64"
	"encoding/json"
	"fmt"
	"net"
)

// sFlow v5 reference encoder + expected decode tree (JSON normal form of the published
// datagram). Written from the sFlow version 5 specification (sflow.org/sflow_version_5.txt)
// and RFC 791 / 8200 / 9293 / 768 / 792 header layouts.

type J = map[string]interface{}

func num(v uint64) json.Number { return json.Number(fmt.Sprint(v)) }

// ---- sampled frame --------------------------------------------------------------------

type Frame struct {
	HdrProto uint32 // 1 ethernet, 11 IPv4, 12 IPv6
	DstMAC   [6]byte
	SrcMAC   [6]byte
	VLAN     bool
	TCI      uint16
	V6       bool
	// IPv4
	IHL      int // 5 or 6
	TOS      uint8
	TotalLen uint16
	ID       uint16
	Flags    uint8  // 3 bits
	FragOff  uint16 // 13 bits
	TTL      uint8
	Cksum    uint16
	Src4     [4]byte
	Dst4     [4]byte
	// IPv6
	TC        uint8
	FlowLabel uint32 // 20 bits
	PayLen    uint16
	HopLimit  uint8
	Src6      [16]byte
	Dst6      [16]byte
	// L4
	L4       int // 6 tcp, 17 udp, 1 icmp (58 under v6)
	SPort    uint16
	DPort    uint16
	DataOff  uint8  // 4 bits
	TCPFlags uint16 // 9 bits
	ICMPType uint8
	ICMPCode uint8
	Payload  []byte // octets after the L4 fixed header (ICMP: after the checksum)
}

func (f *Frame) l4proto() uint8 {
	if f.L4 == 1 && f.V6 {
		return 58
	}
	return uint8(f.L4)
}

// Bytes builds the sampled header octets.
func (f *Frame) Bytes() []byte {
	w := &W{}
	if f.HdrProto == 1 {
		w.Bytes(f.DstMAC[:])
		w.Bytes(f.SrcMAC[:])
		if f.VLAN {
			w.U16(0x8100)
			w.U16(f.TCI)
		}
		if f.V6 {
			w.U16(0x86dd)
		} else {
			w.U16(0x0800)
		}
	}
	if f.V6 {
		w.U32(6<<28 | uint32(f.TC)<<20 | f.FlowLabel&0xfffff)
		w.U16(f.PayLen)
		w.U8(f.l4proto())
		w.U8(f.HopLimit)
		w.Bytes(f.Src6[:])
		w.Bytes(f.Dst6[:])
	} else {
		w.U8(4<<4 | uint8(f.IHL))
		w.U8(f.TOS)
		w.U16(f.TotalLen)
		w.U16(f.ID)
		w.U16(uint16(f.Flags&7)<<13 | f.FragOff&0x1fff)
		w.U8(f.TTL)
		w.U8(f.l4proto())
		w.U16(f.Cksum)
		w.Bytes(f.Src4[:])
		w.Bytes(f.Dst4[:])
		for i := 5; i < f.IHL; i++ {
			w.Bytes([]byte{1, 1, 1, 0}) // NOP NOP NOP EOL
		}
	}
	switch f.L4 {
	case 6:
		w.U16(f.SPort)
		w.U16(f.DPort)
		w.U32(0x01020304)
		w.U32(0x05060708)
		w.U16(uint16(f.DataOff&0xf)<<12 | f.TCPFlags&0x1ff)
		w.U16(0x2000)
		w.U16(0xabcd)
		w.U16(0)
	case 17:
		w.U16(f.SPort)
		w.U16(f.DPort)
		w.U16(uint16(8 + len(f.Payload)))
		w.U16(0xbeef)
	case 1:
		w.U8(f.ICMPType)
		w.U8(f.ICMPCode)
		w.U16(0x1234)
	}
	w.Bytes(f.Payload)
	return w.B
}

// MinLen is the number of octets needed for a complete L2+L3+L4 decode.
func (f *Frame) MinLen() int {
	n := 0
	if f.HdrProto == 1 {
		n += 14
		if f.VLAN {
			n += 4
		}
	}
	if f.V6 {
		n += 40
	} else {
		n += 4 * f.IHL
	}
	switch f.L4 {
	case 6:
		n += 20
	case 17:
		n += 8
	case 1:
		n += 5 // type, code, checksum and at least one octet of the rest
	}
	return n
}

func mac(b [6]byte) string { return net.HardwareAddr(b[:]).String() }

// Expected is the decoded packet tree for a header sampled completely up to n octets.
func (f *Frame) Expected(n int) J {
	full := f.Bytes()
	if n > len(full) {
		n = len(full)
	}
	p := J{}
	l2 := J{"SrcMAC": "", "DstMAC": "", "Vlan": num(0), "EtherType": num(0)}
	if f.HdrProto == 1 {
		l2["SrcMAC"], l2["DstMAC"] = mac(f.SrcMAC), mac(f.DstMAC)
		if f.VLAN {
			l2["Vlan"] = num(uint64(f.TCI))
		}
		if f.V6 {
			l2["EtherType"] = num(0x86dd)
		} else {
			l2["EtherType"] = num(0x0800)
		}
	}
	p["L2"] = l2
	if f.V6 {
		p["L3"] = J{"Version": num(6), "TrafficClass": num(uint64(f.TC)), "FlowLabel": num(uint64(f.FlowLabel & 0xfffff)), "PayloadLen": num(uint64(f.PayLen)),
			"NextHeader": num(uint64(f.l4proto())), "HopLimit": num(uint64(f.HopLimit)), "Src": net.IP(f.Src6[:]).String(), "Dst": net.IP(f.Dst6[:]).String()}
	} else {
		p["L3"] = J{"Version": num(4), "TOS": num(uint64(f.TOS)), "TotalLen": num(uint64(f.TotalLen)), "ID": num(uint64(f.ID)), "Flags": num(uint64(f.Flags & 7)),
			"FragOff": num(uint64(f.FragOff & 0x1fff)), "TTL": num(uint64(f.TTL)), "Protocol": num(uint64(f.l4proto())), "Checksum": num(uint64(f.Cksum)),
			"Src": net.IP(f.Src4[:]).String(), "Dst": net.IP(f.Dst4[:]).String()}
	}
	switch f.L4 {
	case 6:
		p["L4"] = J{"SrcPort": num(uint64(f.SPort)), "DstPort": num(uint64(f.DPort)), "DataOffset": num(uint64(f.DataOff & 0xf)), "Reserved": num(0), "Flags": num(uint64(f.TCPFlags & 0x1ff))}
	case 17:
		p["L4"] = J{"SrcPort": num(uint64(f.SPort)), "DstPort": num(uint64(f.DPort))}
	case 1:
		l4start := f.MinLen() - 5
		rest := full[l4start+4 : n]
		p["L4"] = J{"Type": num(uint64(f.ICMPType)), "Code": num(uint64(f.ICMPCode)), "RestHeader": base64.StdEncoding.EncodeToString(rest)}
	}
	return p
}

// ---- records, samples, datagram ---------------------------------------------------------

type SFRecord struct {
	Tag  uint32 // enterprise<<12 | format
	Kind string // raw sw rt gen eth tr vg vlan proc unknown
	// raw header
	Frame     *Frame
	FrameLen  uint32
	Stripped  uint32
	HeaderLen int // sampled octets (<= len(Frame.Bytes()) unless RawBytes set)
	RawBytes  []byte
	// other records: field values in wire order (u64 for the hyper fields)
	Vals []uint64
	// ext router
	NextHop []byte
	// unknown
	Body []byte
}

type layout struct {
	Key   string
	Names []string
	Wide  map[int]bool
}

var Layouts = map[string]layout{
	"sw":   {"ExtSwitch", []string{"SrcVlan", "SrcPriority", "DstVlan", "DstPriority"}, nil},
	"gen":  {"GenInt", []string{"Index", "Type", "Speed", "Direction", "Status", "InOctets", "InUnicastPackets", "InMulticastPackets", "InBroadcastPackets", "InDiscards", "InErrors", "InUnknownProtocols", "OutOctets", "OutUnicastPackets", "OutMulticastPackets", "OutBroadcastPackets", "OutDiscards", "OutErrors", "PromiscuousMode"}, map[int]bool{2: true, 5: true, 12: true}},
	"eth":  {"EthInt", []string{"AlignmentErrors", "FCSErrors", "SingleCollisionFrames", "MultipleCollisionFrames", "SQETestErrors", "DeferredTransmissions", "LateCollisions", "ExcessiveCollisions", "InternalMACTransmitErrors", "CarrierSenseErrors", "FrameTooLongs", "InternalMACReceiveErrors", "SymbolErrors"}, nil},
	"tr":   {"TRInt", []string{"LineErrors", "BurstErrors", "ACErrors", "AbortTransErrors", "InternalErrors", "LostFrameErrors", "ReceiveCongestions", "FrameCopiedErrors", "TokenErrors", "SoftErrors", "HardErrors", "SignalLoss", "TransmitBeacons", "Recoverys", "LobeWires", "Removes", "Singles", "FreqErrors"}, nil},
	"vg":   {"VGInt", []string{"InHighPriorityFrames", "InHighPriorityOctets", "InNormPriorityFrames", "InNormPriorityOctets", "InIPMErrors", "InOversizeFrameErrors", "InDataErrors", "InNullAddressedFrames", "OutHighPriorityFrames", "OutHighPriorityOctets", "TransitionIntoTrainings", "HCInHighPriorityOctets", "HCInNormPriorityOctets", "HCOutHighPriorityOctets"}, map[int]bool{1: true, 3: true, 9: true, 11: true, 12: true, 13: true}},
	"vlan": {"Vlan", []string{"ID", "Octets", "UnicastPackets", "MulticastPackets", "BroadcastPackets", "Discards"}, map[int]bool{1: true}},
	"proc": {"Proc", []string{"CPU5s", "CPU1m", "CPU5m", "TotalMemory", "FreeMemory"}, map[int]bool{3: true, 4: true}},
}

var RecordTags = map[string]uint32{"raw": 1, "sw": 1001, "rt": 1002, "gen": 1, "eth": 2, "tr": 3, "vg": 4, "vlan": 5, "proc": 1001}

func pad4(w *W, n int) { w.Zero((4 - n%4) % 4) }

func (r *SFRecord) encode(w *W) {
	body := &W{}
	switch r.Kind {
	case "raw":
		hb := r.RawBytes
		if hb == nil {
			hb = r.Frame.Bytes()
			if r.HeaderLen < len(hb) {
				hb = hb[:r.HeaderLen]
			}
		}
		body.U32(r.Frame.HdrProto)
		body.U32(r.FrameLen)
		body.U32(r.Stripped)
		body.U32(uint32(len(hb)))
		body.Bytes(hb)
		pad4(body, len(hb))
	case "rt":
		switch len(r.NextHop) { // address type: 0 unknown (no address octets), 1 IPv4, 2 IPv6
		case 0:
			body.U32(0)
		case 4:
			body.U32(1)
		default:
			body.U32(2)
		}
		body.Bytes(r.NextHop)
		body.U32(uint32(r.Vals[0]))
		body.U32(uint32(r.Vals[1]))
	case "unknown":
		body.Bytes(r.Body)
	default:
		l := Layouts[r.Kind]
		for i, v := range r.Vals {
			if l.Wide[i] {
				body.U64(v)
			} else {
				body.U32(uint32(v))
			}
		}
	}
	w.U32(r.Tag)
	w.U32(uint32(len(body.B)))
	w.Bytes(body.B)
}

// expected returns (key, tree) or ("", nil) for unknown records.
func (r *SFRecord) expected() (string, interface{}) {
	switch r.Kind {
	case "raw":
		n := r.HeaderLen
		return "RawHeader", r.Frame.Expected(n)
	case "rt":
		nh := ""
		if len(r.NextHop) > 0 {
			nh = net.IP(r.NextHop).String()
		}
		return "ExtRouter", J{"NextHop": nh, "SrcMask": num(r.Vals[0]), "DstMask": num(r.Vals[1])}
	case "unknown":
		return "", nil
	}
	l := Layouts[r.Kind]
	t := J{}
	for i, n := range l.Names {
		v := r.Vals[i]
		if !l.Wide[i] {
			v &= 0xffffffff
		}
		t[n] = num(v)
	}
	return l.Key, t
}

type SFSample struct {
	Tag                              uint32 // enterprise<<12 | format; 1 flow sample, 2 counter sample
	Seq                              uint32
	SrcType                          uint8
	SrcIdx                           uint32 // 24 bits
	Rate, Pool, Drops, Input, Output uint32
	Records                          []SFRecord
	Body                             []byte // unknown / vendor samples
}

func (s *SFSample) encode(w *W) {
	body := &W{}
	switch s.Tag {
	case 1:
		body.U32(s.Seq)
		body.U32(uint32(s.SrcType)<<24 | s.SrcIdx&0xffffff)
		body.U32(s.Rate)
		body.U32(s.Pool)
		body.U32(s.Drops)
		body.U32(s.Input)
		body.U32(s.Output)
		body.U32(uint32(len(s.Records)))
		for i := range s.Records {
			s.Records[i].encode(body)
		}
	case 2:
		body.U32(s.Seq)
		body.U32(uint32(s.SrcType)<<24 | s.SrcIdx&0xffffff)
		body.U32(uint32(len(s.Records)))
		for i := range s.Records {
			s.Records[i].encode(body)
		}
	default:
		body.Bytes(s.Body)
	}
	w.U32(s.Tag)
	w.U32(uint32(len(body.B)))
	w.Bytes(body.B)
}

func (s *SFSample) expected() J {
	recs := J{}
	for i := range s.Records {
		if k, t := s.Records[i].expected(); k != "" {
			recs[k] = t
		}
	}
	if s.Tag == 1 {
		return J{"SequenceNo": num(uint64(s.Seq)), "SourceID": num(uint64(s.SrcType)), "SamplingRate": num(uint64(s.Rate)), "SamplePool": num(uint64(s.Pool)),
			"Drops": num(uint64(s.Drops)), "Input": num(uint64(s.Input)), "Output": num(uint64(s.Output)), "RecordsNo": num(uint64(len(s.Records))), "Records": recs}
	}
	return J{"SequenceNo": num(uint64(s.Seq)), "SourceIDType": num(uint64(s.SrcType)), "SourceIDIdx": num(uint64(s.SrcIdx & 0xffffff)), "RecordsNo": num(uint64(len(s.Records))), "Records": recs}
}

type SFDatagram struct {
	Agent   []byte // 4 or 16 octets
	SubID   uint32
	Seq     uint32
	Uptime  uint32
	Samples []SFSample
}

func (d *SFDatagram) Encode() []byte {
	w := &W{}
	w.U32(5)
	if len(d.Agent) == 4 {
		w.U32(1)
	} else {
		w.U32(2)
	}
	w.Bytes(d.Agent)
	w.U32(d.SubID)
	w.U32(d.Seq)
	w.U32(d.Uptime)
	w.U32(uint32(len(d.Samples)))
	for i := range d.Samples {
		d.Samples[i].encode(w)
	}
	return w.B
}

// Expected is the JSON normal form of the decoded datagram (ColTime removed), with the
// samples whose format is in filter removed.
func (d *SFDatagram) Expected(filter []uint32) J {
	ipv := uint64(1)
	if len(d.Agent) == 16 {
		ipv = 2
	}
	samples := []interface{}{}
	counters := []interface{}{}
	for i := range d.Samples {
		s := &d.Samples[i]
		skip := false
		for _, f := range filter {
			if s.Tag>>12 == 0 && s.Tag&0xfff == f {
				skip = true
			}
		}
		if skip {
			continue
		}
		switch s.Tag {
		case 1:
			samples = append(samples, s.expected())
		case 2:
			counters = append(counters, s.expected())
		}
	}
	return J{"Version": num(5), "IPVersion": num(ipv), "AgentSubID": num(uint64(d.SubID)), "SequenceNo": num(uint64(d.Seq)), "SysUpTime": num(uint64(d.Uptime)),
		"SamplesNo": num(uint64(len(d.Samples))), "Samples": samples, "Counters": counters, "IPAddress": net.IP(d.Agent).String()}
}

// Package mck is the worker-side runtime of the bounded-exhaustive checks.
// A check is a set of named Spaces; a Space is a finite, indexable set of cases
// (index <-> case is a bijection) or a set of independent search roots (BFS/DFS
// explorations). The orchestrator (run/orch.py) starts N worker processes of the
// same binary, each executing the indices i with i % nshards == shard.
//
// Protocol (stdout, one JSON object per line):
//
//	{"t":"viol","space":..,"idx":..,"sig":..,"msg":..,"case":{..}}
//	{"t":"stats","space":..,"evals":..,"nontrivial":..,"states":..,"transitions":..,"maxdepth":..,"samples":[..],"complete":true,"extra":{..}}
//
// Progress (for crash / hang attribution): the 8-byte little-endian index of the
// case in flight is pwritten to the -progress file before each case.
package mck

import (
	"encoding/binary"
	"encoding/json"
	"flag"
	"fmt"
	"os"
	"runtime"
	"runtime/debug"
	"sort"
	"strings"
	"sync"
	"time"
)

// Ctx is handed to every case.
type Ctx struct {
	Space   string
	Tier    string
	Idx     uint64
	Replay  bool // single-case replay: be verbose
	w       *worker
	curCase func() interface{}
	skipped bool
}

// Skip marks the index as not denoting a case (invalid combination of an over-approximated
// product space); it is not counted as an evaluation.
func (c *Ctx) Skip() { c.skipped = true }

// Space is a finite indexable case space.
type Space interface {
	Size() uint64
	Run(idx uint64, c *Ctx)
}

// Describer is optionally implemented by spaces whose cases can kill the worker
// (crash / hang attribution needs a description without executing the case).
type Describer interface {
	Describe(idx uint64) (class string, detail interface{})
}

// FuncSpace adapts a size and a function.
type FuncSpace struct {
	N uint64
	F func(idx uint64, c *Ctx)
}

func (f FuncSpace) Size() uint64         { return f.N }
func (f FuncSpace) Run(i uint64, c *Ctx) { f.F(i, c) }

type worker struct {
	mu          sync.Mutex
	out         *json.Encoder
	evals       uint64
	states      uint64
	transitions uint64
	maxdepth    uint64
	distinct    map[uint64]struct{}
	samples     []interface{}
	nviol       int
	violBySig   map[string]int
	extra       map[string]uint64
	outcomes    map[string]uint64
	progress    *os.File
	hashFile    string
	budgetHit   bool
	beat        uint64
}

const maxViolPerSig = 3
const maxSamples = 4

// SetCase registers a lazily evaluated description of the case in flight (used when a
// panic is caught).
func (c *Ctx) SetCase(f func() interface{}) { c.curCase = f }

// Violation reports an oracle failure. sig is a stable class signature (used for
// known-finding matching); detail should make the case replayable by a reader.
func (c *Ctx) Violation(sig, msg string, detail interface{}) {
	w := c.w
	w.mu.Lock()
	defer w.mu.Unlock()
	w.nviol++
	w.violBySig[sig]++
	if w.violBySig[sig] > maxViolPerSig && !c.Replay {
		return
	}
	w.out.Encode(map[string]interface{}{"t": "viol", "space": c.Space, "idx": c.Idx, "sig": sig, "msg": msg, "case": detail})
}

// Eval counts one evaluated case (called by the runner for indexed spaces; BFS spaces
// call it per transition themselves if they want).
func (c *Ctx) Eval(n uint64) { c.w.mu.Lock(); c.w.evals += n; c.w.mu.Unlock() }

// Nontrivial records the content hash of a non-trivial case.
func (c *Ctx) Nontrivial(h uint64) { c.w.mu.Lock(); c.w.distinct[h] = struct{}{}; c.w.mu.Unlock() }

// Sample offers a case for the evidence file (first few are kept).
func (c *Ctx) Sample(f func() interface{}) {
	c.w.mu.Lock()
	defer c.w.mu.Unlock()
	if len(c.w.samples) < maxSamples {
		c.w.samples = append(c.w.samples, f())
	}
}

// WantSample tells whether Sample would still keep something.
func (c *Ctx) WantSample() bool {
	c.w.mu.Lock()
	defer c.w.mu.Unlock()
	return len(c.w.samples) < maxSamples
}

func (c *Ctx) States(n uint64)      { c.w.mu.Lock(); c.w.states += n; c.w.mu.Unlock() }
func (c *Ctx) Transitions(n uint64) { c.w.mu.Lock(); c.w.transitions += n; c.w.mu.Unlock() }
func (c *Ctx) Depth(d uint64) {
	c.w.mu.Lock()
	if d > c.w.maxdepth {
		c.w.maxdepth = d
	}
	c.w.mu.Unlock()
}
func (c *Ctx) Count(key string, n uint64) { c.w.mu.Lock(); c.w.extra[key] += n; c.w.mu.Unlock() }

// Outcome counts a distinct observed outcome class (vacuity guard).
func (c *Ctx) Outcome(key string) { c.w.mu.Lock(); c.w.outcomes[key]++; c.w.mu.Unlock() }

// Heartbeat tells the orchestrator's hang detector that a long case is still making progress.
func (c *Ctx) Heartbeat() {
	w := c.w
	if w.progress == nil {
		return
	}
	w.beat++
	var b [8]byte
	binary.LittleEndian.PutUint64(b[:], w.beat)
	w.progress.WriteAt(b[:], 8)
}

// Incomplete marks the run as not exhaustive (budget/cap hit).
func (c *Ctx) Incomplete() { c.w.mu.Lock(); c.w.budgetHit = true; c.w.mu.Unlock() }

// Hash64 is FNV-1a over the parts.
func Hash64(parts ...[]byte) uint64 {
	h := uint64(14695981039346656037)
	for _, p := range parts {
		for _, b := range p {
			h ^= uint64(b)
			h *= 1099511628211
		}
		h ^= 0xff
		h *= 1099511628211
	}
	return h
}

// HashStr hashes strings.
func HashStr(parts ...string) uint64 {
	h := uint64(14695981039346656037)
	for _, p := range parts {
		for i := 0; i < len(p); i++ {
			h ^= uint64(p[i])
			h *= 1099511628211
		}
		h ^= 0xff
		h *= 1099511628211
	}
	return h
}

// PanicSig turns a recovered panic + stack into a stable signature: the panic class
// and the innermost frame that lies in the repository (not in zzverif, not runtime).
func PanicSig(r interface{}, stack []byte) (string, string) {
	msg := fmt.Sprint(r)
	class := msg
	for _, p := range []string{"index out of range", "slice bounds out of range", "nil pointer dereference", "nil map", "makeslice", "out of memory", "divide by zero", "closed channel", "close of closed", "negative", "interface conversion"} {
		if strings.Contains(msg, p) {
			class = p
			break
		}
	}
	if len(class) > 60 {
		class = class[:60]
	}
	lines := strings.Split(string(stack), "\n")
	site := "?"
	for i := 0; i+1 < len(lines); i++ {
		l := strings.TrimSpace(lines[i+1])
		if !strings.Contains(l, ".go:") {
			continue
		}
		fn := lines[i]
		if strings.Contains(fn, "zzverif") || strings.Contains(l, "zz_verif") || strings.Contains(l, "/zzverif/") {
			continue
		}
		if strings.Contains(l, "/vflow/") || strings.Contains(l, "EdgeCast") || strings.Contains(fn, "github.com/EdgeCast/vflow") {
			// function name without args
			f := fn
			if j := strings.LastIndex(f, "("); j > 0 {
				f = f[:j]
			}
			if j := strings.LastIndex(f, "/"); j >= 0 {
				f = f[j+1:]
			}
			site = f
			break
		}
	}
	return "panic:" + class + "@" + site, msg
}

// Shard / NShards identify this worker (set by Main before any case runs).
var Shard, NShards uint64 = 0, 1

// LoopAddr is the loopback address that belongs to this worker process alone: 127.<run>.<shard+1>.1,
// where <run> distinguishes check runs going on at the same time (VERIF_LOOP, set by the runner).
func LoopAddr() [4]byte {
	run := 0
	fmt.Sscan(os.Getenv("VERIF_LOOP"), &run)
	return [4]byte{127, byte(run), byte(Shard + 1), 1}
}

// Main parses flags and runs the requested space shard.
func Main(spaces map[string]func(tier string) Space) {
	var (
		space    = flag.String("space", "", "space name")
		tier     = flag.String("tier", "quick", "quick|thorough")
		shard    = flag.Uint64("shard", 0, "shard index")
		nshards  = flag.Uint64("nshards", 1, "number of shards")
		from     = flag.Uint64("from", 0, "skip indices below this (restart after a crash)")
		only     = flag.Int64("only", -1, "run exactly this index (replay)")
		progress = flag.String("progress", "", "progress file")
		hashes   = flag.String("hashes", "", "file receiving the non-trivial case hashes")
		merge    = flag.String("merge", "", "comma list of hash files: print the number of distinct hashes")
		list     = flag.Bool("list", false, "list spaces and sizes")
		describe = flag.Int64("describe", -1, "print class + description of this index as JSON (no execution)")
		budget   = flag.Duration("budget", 0, "internal time budget (0 = none); hitting it ends the shard with complete=false")
		memlimit = flag.Int64("gomemlimit", 0, "debug.SetMemoryLimit")
	)
	flag.Parse()
	if *merge != "" {
		seen := map[uint64]struct{}{}
		for _, f := range strings.Split(*merge, ",") {
			b, err := os.ReadFile(f)
			if err != nil {
				continue
			}
			for i := 0; i+8 <= len(b); i += 8 {
				seen[binary.LittleEndian.Uint64(b[i:])] = struct{}{}
			}
		}
		fmt.Println(len(seen))
		return
	}
	if *list {
		names := []string{}
		for n := range spaces {
			names = append(names, n)
		}
		sort.Strings(names)
		for _, n := range names {
			fmt.Printf("%s %d\n", n, spaces[n](*tier).Size())
		}
		return
	}
	if *memlimit > 0 {
		debug.SetMemoryLimit(*memlimit)
	}
	Shard, NShards = *shard, *nshards
	mk, ok := spaces[*space]
	if !ok {
		fmt.Fprintf(os.Stderr, "unknown space %q\n", *space)
		os.Exit(2)
	}
	sp := mk(*tier)
	if *describe >= 0 {
		out := map[string]interface{}{"space": *space, "idx": *describe}
		if d, ok := sp.(Describer); ok {
			cls, det := d.Describe(uint64(*describe))
			out["class"], out["detail"] = cls, det
		}
		json.NewEncoder(os.Stdout).Encode(out)
		return
	}
	w := &worker{out: json.NewEncoder(os.Stdout), distinct: map[uint64]struct{}{}, violBySig: map[string]int{}, extra: map[string]uint64{}, outcomes: map[string]uint64{}, hashFile: *hashes}
	if *progress != "" {
		f, err := os.OpenFile(*progress, os.O_RDWR|os.O_CREATE, 0644)
		if err != nil {
			fmt.Fprintln(os.Stderr, err)
			os.Exit(2)
		}
		w.progress = f
	}
	size := sp.Size()
	start := time.Now()
	complete := true
	var pb [8]byte
	runOne := func(i uint64, replay bool) {
		c := &Ctx{Space: *space, Tier: *tier, Idx: i, Replay: replay, w: w}
		if w.progress != nil {
			binary.LittleEndian.PutUint64(pb[:], i)
			w.progress.WriteAt(pb[:], 0)
		}
		func() {
			defer func() {
				if r := recover(); r != nil {
					st := debug.Stack()
					sig, msg := PanicSig(r, st)
					var cs interface{}
					if c.curCase != nil {
						func() {
							defer func() { recover() }()
							cs = c.curCase()
						}()
					}
					c.Violation(sig, msg, map[string]interface{}{"case": cs, "stack": trimStack(st)})
				}
			}()
			sp.Run(i, c)
		}()
		if !c.skipped {
			w.evals++
		}
	}
	if *only >= 0 {
		runOne(uint64(*only), true)
	} else {
		for i := *shard; i < size; i += *nshards {
			if i < *from {
				continue
			}
			if *budget > 0 && time.Since(start) > *budget {
				complete = false
				break
			}
			runOne(i, false)
		}
	}
	if w.progress != nil {
		binary.LittleEndian.PutUint64(pb[:], ^uint64(0))
		w.progress.WriteAt(pb[:], 0)
	}
	if w.budgetHit {
		complete = false
	}
	if w.hashFile != "" {
		b := make([]byte, 0, 8*len(w.distinct))
		for h := range w.distinct {
			var x [8]byte
			binary.LittleEndian.PutUint64(x[:], h)
			b = append(b, x[:]...)
		}
		os.WriteFile(w.hashFile, b, 0644)
	}
	var ms runtime.MemStats
	runtime.ReadMemStats(&ms)
	w.out.Encode(map[string]interface{}{"t": "stats", "space": *space, "size": size, "evals": w.evals, "nontrivial": len(w.distinct),
		"states": w.states, "transitions": w.transitions, "maxdepth": w.maxdepth, "samples": w.samples, "complete": complete,
		"violations": w.nviol, "extra": w.extra, "outcomes": w.outcomes, "wall_s": time.Since(start).Seconds(), "sys_mb": ms.Sys >> 20})
}

func trimStack(st []byte) string {
	lines := strings.Split(string(st), "\n")
	out := []string{}
	for _, l := range lines {
		if strings.Contains(l, "runtime/debug") || strings.Contains(l, "mck.Main") {
			continue
		}
		out = append(out, l)
		if len(out) > 24 {
			break
		}
	}
	return strings.Join(out, "\n")
}

// Radix is a mixed-radix index decoder (index <-> digit vector bijection).
type Radix []uint64

func (r Radix) Size() uint64 {
	n := uint64(1)
	for _, d := range r {
		n *= d
	}
	return n
}

// Digits decodes idx; digit 0 varies fastest.
func (r Radix) Digits(idx uint64) []int {
	out := make([]int, len(r))
	for i, d := range r {
		out[i] = int(idx % d)
		idx /= d
	}
	return out
}

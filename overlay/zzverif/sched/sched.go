// Package sched is a controlled scheduler + stateless depth-first explorer for real Go code.
//
// Every "thread" is a real goroutine, but exactly one runs at a time. Threads park on raw
// futex words inside //go:norace functions and all scheduler state lives in fixed arrays that
// are touched only from //go:norace functions: the hand-off is therefore INVISIBLE to the Go
// race detector, whose happens-before graph contains only the program's own edges (real
// mutexes, channels, atomics, go statements - the shims in vsync/vatomic/venv always perform
// the real operation after the scheduling point). A -race build thus race-checks every
// explored schedule.
//
// Exploration: replay a choice prefix, then choice 0 (= keep running the current thread /
// default environment answer) at every later decision; alternatives are explored depth-first
// while the number of deviations (preemptions of a still-enabled thread, non-default
// environment answers) stays within the bound.
package sched

import (
	"fmt"
	"os"
	"reflect"
	"runtime"
	"runtime/debug"
	"strings"
	"sync/atomic"
	"syscall"
	"unsafe"
)

const (
	MaxThreads = 64
	maxCases   = 8
)

// operation kinds
const (
	OpStart = iota
	OpYield
	OpLock
	OpUnlock
	OpRLock
	OpRUnlock
	OpTryLock
	OpTryRLock
	OpChanSend
	OpChanRecv
	OpChanClose
	OpSelect
	OpWGWait
	OpSleep
	OpCond  // enabled iff cond() (harness only)
	OpQuiet // enabled iff every other thread is blocked or finished
	OpTimed // enabled iff ready() or virtual deadline reached (socket read)
	OpJoin  // enabled iff thread obj finished
)

var opNames = []string{"start", "yield", "lock", "unlock", "rlock", "runlock", "trylock", "tryrlock", "send", "recv", "close", "select", "wgwait", "sleep", "cond", "quiet", "timed", "join"}

const (
	stFree = iota
	stParked
	stRunning
	stFinished
)

// Dir of a select case
const (
	Recv = 0
	Send = 1
)

// Case is one communication clause of a select.
type Case struct {
	Ch  interface{}
	Dir int
}

// MutexModel is embedded in the vsync shims: the scheduler's view of the lock.
type MutexModel struct {
	W bool
	R int32
}

// WGModel is the scheduler's view of a WaitGroup counter.
type WGModel struct{ N int32 }

// QueueModel is the scheduler's view of a socket receive queue.
type QueueModel struct {
	N      int32
	Closed bool
}

type slot struct {
	wg     *WGModel
	q      *QueueModel
	word   uint32
	state  uint32
	kind   uint32
	abort  bool
	mu     *MutexModel
	ch     interface{}
	cases  [maxCases]Case
	ncases int
	hasDef bool
	wake   int64
	cond   func() bool
	target int
	result int
	tryOK  bool
	name   string
	label  string // description of the pending op for traces
}

var (
	slots    [MaxThreads]slot
	nslots   int
	ctrlWord uint32
	cur      int
	active   bool
	aborting bool
	now      int64

	// closed channels of this execution
	closedCh [64]uintptr
	nclosed  int

	// exploration state
	prefix    []int
	choices   [4096]int
	nalts     [4096]int
	costs     [4096]int // deviation cost already spent BEFORE this decision
	freeAlt   [4096]int // alternatives with index < freeAlt cost nothing, the others one deviation
	nchoices  int
	spent     int
	trace     [8192]string
	ntrace    int
	keepTrace bool

	failSig, failMsg string
	panicked         bool
	deadlocked       bool
	steps            int
	maxSteps         = 20000
	timerJumps       bool
	freeSwitches     bool
	jumpsTaken       int
	jumpedNs         int64
)

var abortSentinel = new(int)

//go:norace
//go:noinline
func loadWord(w *uint32) uint32 { return *w }

var spinIters = 3000

// futexWait: spin briefly (the common hand-offs thread -> controller -> same thread complete
// within a microsecond), then sleep in the kernel.
//
//go:norace
func futexWait(w *uint32) {
	for i := 0; i < spinIters; i++ {
		if loadWord(w) == 1 {
			*w = 0
			return
		}
	}
	for {
		if loadWord(w) == 1 {
			*w = 0
			return
		}
		syscall.Syscall6(syscall.SYS_FUTEX, uintptr(unsafe.Pointer(w)), 0 /*FUTEX_WAIT*/, 0, 0, 0, 0)
	}
}

//go:norace
func futexWake(w *uint32) {
	*w = 1
	syscall.Syscall6(syscall.SYS_FUTEX, uintptr(unsafe.Pointer(w)), 1 /*FUTEX_WAKE*/, 1, 0, 0, 0)
}

// Active reports whether the caller runs under the scheduler.
//
//go:norace
func Active() bool { return active }

//go:norace
func park(s *slot) {
	s.state = stParked
	futexWake(&ctrlWord)
	futexWait(&s.word)
	if s.abort {
		panic(abortSentinel)
	}
}

// Point is a plain scheduling point (always enabled).
//
//go:norace
func Point(label string) {
	if !active || aborting {
		return
	}
	s := &slots[cur]
	s.kind, s.label = OpYield, label
	park(s)
}

// MutexTry announces a TryLock / TryRLock: always grantable; the answer is what the lock's state is at
// the moment the scheduler lets the thread go on.
//
//go:norace
func MutexTry(kind uint32, m *MutexModel, label string) bool {
	if !active || aborting {
		return true
	}
	s := &slots[cur]
	s.kind, s.mu, s.label = kind, m, label
	park(s)
	return s.tryOK
}

// MutexPoint announces a lock operation and parks until it is granted.
//
//go:norace
func MutexPoint(kind uint32, m *MutexModel, label string) {
	if !active || aborting {
		return
	}
	s := &slots[cur]
	s.kind, s.mu, s.label = kind, m, label
	park(s)
}

//go:norace
func chanPtr(ch interface{}) uintptr { return reflect.ValueOf(ch).Pointer() }

//go:norace
func isClosed(p uintptr) bool {
	for i := 0; i < nclosed; i++ {
		if closedCh[i] == p {
			return true
		}
	}
	return false
}

// ChanSend / ChanRecv / ChanClose announce a channel operation; the real operation follows.
//
//go:norace
func ChanSend(ch interface{}) {
	if !active || aborting {
		return
	}
	s := &slots[cur]
	s.kind, s.ch, s.label = OpChanSend, ch, "send"
	park(s)
}

//go:norace
func ChanRecv(ch interface{}) {
	if !active || aborting {
		return
	}
	s := &slots[cur]
	s.kind, s.ch, s.label = OpChanRecv, ch, "recv"
	park(s)
}

//go:norace
func ChanClose(ch interface{}) {
	if !active || aborting {
		return
	}
	s := &slots[cur]
	s.kind, s.ch, s.label = OpChanClose, ch, "close"
	park(s)
}

// Select parks until a case is ready (or returns -1 for default) and returns its index.
//
//go:norace
func Select(hasDefault bool, cases ...Case) int {
	if !active || aborting {
		if aborting {
			panic(abortSentinel)
		}
		// instrumented code used outside an exploration (a harness computing an expectation): the first ready case,
		// else the default, else wait - the real operation follows in the caller
		for {
			for i := range cases {
				if chanReady(cases[i]) {
					return i
				}
			}
			if hasDefault {
				return -1
			}
			runtime.Gosched()
		}
	}
	if len(cases) > maxCases {
		fatal("select with too many cases")
	}
	s := &slots[cur]
	s.kind, s.hasDef, s.ncases, s.label = OpSelect, hasDefault, len(cases), "select"
	for i := range cases {
		s.cases[i] = cases[i]
	}
	park(s)
	return s.result
}

// Sleep blocks for d nanoseconds of virtual time.
//
//go:norace
func Sleep(d int64) {
	if !active || aborting {
		return
	}
	s := &slots[cur]
	s.kind, s.wake, s.label = OpSleep, now+d, "sleep"
	park(s)
}

// Now is the virtual clock (nanoseconds).
//
//go:norace
func Now() int64 { return now }

// Timed parks until the queue is non-empty / closed or the virtual deadline passes; returns
// true if the queue is ready.
//
//go:norace
func Timed(q *QueueModel, deadline int64, label string) bool {
	if !active || aborting {
		if aborting {
			panic(abortSentinel)
		}
		return q.N > 0 || q.Closed
	}
	s := &slots[cur]
	s.kind, s.q, s.wake, s.label = OpTimed, q, deadline, label
	park(s)
	return s.result == 1
}

// WGWait parks until the counter is zero.
//
//go:norace
func WGWait(m *WGModel) {
	if !active || aborting {
		return
	}
	s := &slots[cur]
	s.kind, s.wg, s.label = OpWGWait, m, "wg.Wait"
	park(s)
}

// WaitCond parks until cond() holds (harness use; cond must be //go:norace-safe).
//
//go:norace
func WaitCond(cond func() bool, label string) {
	if !active || aborting {
		return
	}
	s := &slots[cur]
	s.kind, s.cond, s.label = OpCond, cond, label
	park(s)
}

// Quiesce parks until every other thread is blocked or finished.
//
//go:norace
func Quiesce() {
	if !active || aborting {
		return
	}
	s := &slots[cur]
	s.kind, s.label = OpQuiet, "quiesce"
	park(s)
}

// ParkedSenders counts the threads that are parked in a channel SEND (a statement send or a select without
// default whose only cases are sends) - at a quiescent point of a harness such a thread is stuck: nobody is left
// to take what it wants to hand over.
//
//go:norace
func ParkedSenders() (n int, who string) {
	for i := 0; i < nslots; i++ {
		s := &slots[i]
		if i == cur || s.state != stParked {
			continue
		}
		stuck := s.kind == OpChanSend
		if s.kind == OpSelect && !s.hasDef && s.ncases > 0 {
			stuck = true
			for k := 0; k < s.ncases; k++ {
				if s.cases[k].Dir != Send {
					stuck = false
				}
			}
		}
		if stuck {
			n++
			if who == "" {
				who = s.name
			}
		}
	}
	return
}

// Join parks until thread id has finished (virtual time may advance meanwhile).
//
//go:norace
func Join(id int) {
	if !active || aborting {
		return
	}
	s := &slots[cur]
	s.kind, s.target, s.label = OpJoin, id, "join"
	park(s)
}

// Choose is an environment choice with n alternatives; alternative 0 is the default, any
// other costs one deviation.
//
//go:norace
func Choose(n int, label string) int {
	if !active || aborting || n <= 1 {
		return 0
	}
	return decide(n, 1, label)
}

//go:norace
func fatal(msg string) {
	fmt.Fprintln(os.Stderr, "sched: FATAL:", msg)
	os.Exit(3) // 3 = the harness itself cannot go on (never a verdict about the code under test)
}

// Go starts f as a new controlled thread and returns its id.
//
//go:norace
func Go(f func()) int { return GoNamed("", f) }

//go:norace
func GoNamed(name string, f func()) int {
	if !active {
		go f()
		return -1
	}
	if aborting {
		return -1
	}
	if nslots >= MaxThreads {
		fatal("too many threads")
	}
	id := nslots
	nslots++
	s := &slots[id]
	*s = slot{}
	s.state, s.kind, s.name, s.label = stParked, OpStart, name, "start"
	go threadMain(id, f)
	return id
}

// epochSync orders executions for the race detector: every thread's exit (release) happens
// before the start of the next execution's harness thread (acquire). Executions are independent
// runs; without this edge package-level state re-initialised by the harness would be reported as
// racing with the previous execution's threads.
var epochSync uint64

// ProcessBoundary gives the calling (harness) thread a happens-before edge from every thread
// that has finished so far: used where a harness models "the old process is gone, a new one
// starts" inside one execution and re-initialises package-level state.
func ProcessBoundary() { atomic.LoadUint64(&epochSync) }

func threadMain(id int, f func()) {
	waitFirst(id)
	defer threadExit(id)
	if abortedAt(id) {
		return
	}
	if id == 0 {
		atomic.LoadUint64(&epochSync)
	}
	f()
}

//go:norace
func waitFirst(id int) { futexWait(&slots[id].word) }

//go:norace
func abortedAt(id int) bool { return slots[id].abort }

func threadExit(id int) {
	if r := recover(); r != nil && r != interface{}(abortSentinel) {
		recordPanic(id, r, debug.Stack())
	}
	atomic.AddUint64(&epochSync, 1)
	finish(id)
}

//go:norace
func recordPanic(id int, r interface{}, st []byte) {
	if failSig == "" {
		panicked = true
		msg := fmt.Sprint(r)
		failSig = "panic:" + shorten(msg) + "@" + siteOf(st)
		failMsg = fmt.Sprintf("thread %d (%s) panicked: %s\n%s", id, slots[id].name, msg, trimStack(st))
	}
}

func shorten(s string) string {
	for _, p := range []string{"send on closed channel", "close of closed channel", "close of nil channel", "index out of range", "slice bounds out of range", "nil pointer dereference", "nil map", "concurrent map"} {
		if strings.Contains(s, p) {
			return p
		}
	}
	if len(s) > 60 {
		s = s[:60]
	}
	return s
}

func siteOf(st []byte) string {
	lines := strings.Split(string(st), "\n")
	for i := 0; i+1 < len(lines); i++ {
		fn, loc := lines[i], strings.TrimSpace(lines[i+1])
		if !strings.Contains(loc, ".go:") || strings.Contains(fn, "zzverif") || strings.Contains(loc, "zz_verif") || strings.Contains(fn, "panic(") || strings.HasPrefix(fn, "runtime") {
			continue
		}
		if strings.Contains(fn, "github.com/EdgeCast/vflow") || strings.HasPrefix(fn, "main.") {
			if j := strings.LastIndex(fn, "("); j > 0 {
				fn = fn[:j]
			}
			if j := strings.LastIndex(fn, "/"); j >= 0 {
				fn = fn[j+1:]
			}
			return fn
		}
	}
	return "?"
}

func trimStack(st []byte) string {
	lines := strings.Split(string(st), "\n")
	if len(lines) > 30 {
		lines = lines[:30]
	}
	return strings.Join(lines, "\n")
}

//go:norace
func finish(id int) {
	slots[id].state = stFinished
	futexWake(&ctrlWord)
}

// TimerJumps is the number of timers that have fired early so far in this execution (a thread was
// run by jumping the virtual clock while other threads were still runnable).
//
//go:norace
func TimerJumps() int { return jumpsTaken }

// JumpedNs is the total virtual time skipped by timers firing early in this execution, i.e. how
// long runnable threads were held up in favour of a sleeping one.
//
//go:norace
func JumpedNs() int64 { return jumpedNs }

// Step is the number of scheduling steps taken so far in this execution (a logical clock).
//
//go:norace
func Step() int { return steps }

// Fail records an oracle failure of the current execution (first one wins).
//
//go:norace
func Fail(sig, msg string) {
	if failSig == "" {
		failSig, failMsg = sig, msg
	}
}

// ---- controller ------------------------------------------------------------------------

//go:norace
func chanReady(c Case) bool {
	v := reflect.ValueOf(c.Ch)
	if v.IsNil() {
		return false
	}
	closed := isClosed(v.Pointer())
	if c.Dir == Recv {
		return v.Len() > 0 || closed
	}
	if closed {
		return true // would panic: that is an outcome, not a block
	}
	if v.Cap() == 0 {
		fatal("send on an unbuffered channel is not modelled")
	}
	return v.Len() < v.Cap()
}

//go:norace
func othersBlocked(me int) bool {
	for i := 0; i < nslots; i++ {
		if i == me || slots[i].state != stParked {
			continue
		}
		if slots[i].kind == OpQuiet {
			continue
		}
		if enabled(i, false) {
			return false
		}
	}
	return true
}

//go:norace
func enabled(i int, allowQuiet bool) bool {
	s := &slots[i]
	if s.state != stParked {
		return false
	}
	switch s.kind {
	case OpStart, OpYield, OpUnlock, OpRUnlock, OpChanClose, OpTryLock, OpTryRLock:
		return true
	case OpLock:
		return !s.mu.W && s.mu.R == 0
	case OpRLock:
		return !s.mu.W
	case OpChanSend:
		return chanReady(Case{s.ch, Send})
	case OpChanRecv:
		return chanReady(Case{s.ch, Recv})
	case OpSelect:
		if s.hasDef {
			return true
		}
		for k := 0; k < s.ncases; k++ {
			if chanReady(s.cases[k]) {
				return true
			}
		}
		return false
	case OpWGWait:
		return s.wg.N <= 0
	case OpCond:
		return s.cond()
	case OpSleep:
		return now >= s.wake
	case OpTimed:
		return s.q.N > 0 || s.q.Closed || now >= s.wake
	case OpJoin:
		return slots[s.target].state == stFinished
	case OpQuiet:
		return allowQuiet && othersBlocked(i)
	}
	return false
}

//go:norace
func timeBlocked(i int) (int64, bool) {
	s := &slots[i]
	if s.state == stParked && (s.kind == OpSleep || s.kind == OpTimed) && now < s.wake {
		return s.wake, true
	}
	return 0, false
}

// decide records a decision with n alternatives and returns the chosen one.
//
//go:norace
func decide(n int, free int, label string) int {
	if nchoices >= len(choices) {
		fatal("execution too long (decision log full)")
	}
	c := 0
	if nchoices < len(prefix) {
		c = prefix[nchoices]
		if c >= n {
			fatal(fmt.Sprintf("replay divergence at decision %d: choice %d of %d (%s)", nchoices, c, n, label))
		}
	}
	choices[nchoices], nalts[nchoices], costs[nchoices], freeAlt[nchoices] = c, n, spent, free
	nchoices++
	if c >= free {
		spent++
	}
	if keepTrace && ntrace < len(trace) {
		trace[ntrace] = fmt.Sprintf("%s: choice %d/%d", label, c, n)
		ntrace++
	}
	return c
}

//go:norace
func grant(i int) {
	s := &slots[i]
	switch s.kind {
	case OpLock:
		s.mu.W = true
	case OpUnlock:
		s.mu.W = false
	case OpRLock:
		s.mu.R++
	case OpRUnlock:
		s.mu.R--
	case OpTryLock:
		if s.tryOK = !s.mu.W && s.mu.R == 0; s.tryOK {
			s.mu.W = true
		}
	case OpTryRLock:
		if s.tryOK = !s.mu.W; s.tryOK {
			s.mu.R++
		}
	case OpChanClose:
		p := chanPtr(s.ch)
		if !isClosed(p) && nclosed < len(closedCh) {
			closedCh[nclosed] = p
			nclosed++
		}
	case OpSelect:
		var ready [maxCases]int
		n := 0
		for k := 0; k < s.ncases; k++ {
			if chanReady(s.cases[k]) {
				ready[n] = k
				n++
			}
		}
		if n == 0 {
			s.result = -1
		} else if n == 1 {
			s.result = ready[0]
		} else {
			s.result = ready[decide(n, 1, "select-case")]
		}
	case OpTimed:
		if s.q.N > 0 || s.q.Closed {
			s.result = 1
		} else {
			s.result = 0
		}
	}
	if keepTrace && ntrace < len(trace) {
		trace[ntrace] = fmt.Sprintf("t%d(%s) %s %s", i, s.name, opNames[s.kind], s.label)
		ntrace++
	}
	cur = i
	s.state = stRunning
	futexWake(&s.word)
}

// runOne executes body once under the current prefix. Returns false if the step cap was hit.
//
//go:norace
func runOne(body func()) {
	for i := range slots {
		slots[i] = slot{}
	}
	nslots, nclosed, nchoices, spent, ntrace, now, steps = 0, 0, 0, 0, 0, 0, 0
	jumpsTaken, jumpedNs = 0, 0
	failSig, failMsg, panicked, deadlocked, aborting = "", "", false, false, false
	ctrlWord = 0
	active = true
	nslots = 1
	slots[0].state, slots[0].kind, slots[0].name = stParked, OpStart, "harness"
	go threadMain(0, body)
	last := -1
	for {
		if last >= 0 {
			futexWait(&ctrlWord)
		}
		// everyone is parked or finished now
		if slots[0].state == stFinished || failSig != "" {
			break
		}
		steps++
		if steps > maxSteps {
			Fail("livelock:step-cap", fmt.Sprintf("execution exceeded %d scheduling steps", maxSteps))
			break
		}
		var en [MaxThreads]int
		n := 0
		for {
			n = 0
			// canonical order (= the default scheduler): threads that have not started yet, oldest first
			// (a new goroutine runs at its parent's next scheduling point, as with the runtime's
			// runnext slot); then the thread that just ran if it is still enabled; then ascending ids
			for i := 0; i < nslots; i++ {
				if slots[i].state == stParked && slots[i].kind == OpStart {
					en[n] = i
					n++
				}
			}
			if last >= 0 && slots[last].kind != OpStart && enabled(last, false) {
				en[n] = last
				n++
			}
			for i := 0; i < nslots; i++ {
				if i != last && slots[i].kind != OpStart && enabled(i, false) {
					en[n] = i
					n++
				}
			}
			if n == 0 {
				// quiesce waiters run only when nothing else can
				for i := 0; i < nslots; i++ {
					if enabled(i, true) {
						en[n] = i
						n++
					}
				}
			}
			if n > 0 {
				break
			}
			// nobody enabled: advance virtual time to the earliest timer
			var best int64 = -1
			for i := 0; i < nslots; i++ {
				if w, ok := timeBlocked(i); ok && (best < 0 || w < best) {
					best = w
				}
			}
			if best < 0 {
				break
			}
			now = best
		}
		if n == 0 {
			deadlocked = true
			desc := ""
			for i := 0; i < nslots; i++ {
				if slots[i].state == stParked {
					desc += fmt.Sprintf(" t%d(%s):%s", i, slots[i].name, opNames[slots[i].kind])
				}
			}
			Fail("deadlock", "no thread can run:"+desc)
			break
		}
		// timer alternatives: a thread blocked on virtual time may be run "early" by jumping the clock
		// to its wake-up time while other threads are still runnable (they were descheduled that long);
		// always a deviation
		// cost model: the default scheduler keeps running the current thread while it is enabled and
		// otherwise switches to the lowest-numbered enabled thread; ANY other choice is one deviation
		// (with FreeSwitches the alternatives at a forced switch are free: classic preemption bounding)
		free := 1
		if freeSwitches && !(last >= 0 && en[0] == last) {
			free = n
		}
		var jump [MaxThreads]int64
		if timerJumps {
			for i := 0; i < nslots; i++ {
				if w, ok := timeBlocked(i); ok {
					jump[n] = w
					en[n] = i
					n++
				}
			}
		}
		pick := en[0]
		if n > 1 {
			k := decide(n, free, "thread")
			pick = en[k]
			if jump[k] > now {
				jumpedNs += jump[k] - now
				now = jump[k]
				jumpsTaken++
			}
		}
		last = pick
		grant(pick)
	}
	// unwind every parked thread
	aborting = true
	for i := 0; i < nslots; i++ {
		if slots[i].state == stParked {
			slots[i].abort = true
			cur = i
			slots[i].state = stRunning
			futexWake(&slots[i].word)
			for slots[i].state != stFinished {
				futexWait(&ctrlWord)
			}
		}
	}
	active = false
}

// Config of an exploration.
type Config struct {
	Bound        int             // max deviations
	TimerJumps   bool            // let a timer fire while other threads are still runnable (costs a deviation)
	FreeSwitches bool            // do not charge a deviation for the choice of the next thread when the current one blocks
	Prefix       []int           // explore only the subtree under this choice prefix
	MaxExec      int             // 0 = unlimited
	OnExec       func(r *Result) // called after every execution
	KeepTrace    bool
}

// Result of one execution.
type Result struct {
	Choices    []int
	Alts       []int // number of alternatives at each decision
	Deviations int
	FailSig    string
	FailMsg    string
	Steps      int
	Trace      []string
	VirtualNs  int64
}

// Stats of an exploration.
type Stats struct {
	Executions int
	Points     int
	MaxDepth   int
	Complete   bool
}

// Explore runs body under every schedule within the bound (depth-first).
func Explore(cfg Config, body func()) Stats {
	runtime.LockOSThread()
	defer runtime.UnlockOSThread()
	var st Stats
	st.Complete = true
	keepTrace = cfg.KeepTrace
	timerJumps = cfg.TimerJumps
	freeSwitches = cfg.FreeSwitches
	prefix = append([]int{}, cfg.Prefix...)
	base := len(cfg.Prefix)
	for {
		runOne(body)
		st.Executions++
		st.Points += steps
		if nchoices > st.MaxDepth {
			st.MaxDepth = nchoices
		}
		if cfg.OnExec != nil {
			r := &Result{Choices: append([]int{}, choices[:nchoices]...), Alts: append([]int{}, nalts[:nchoices]...), Deviations: spent, FailSig: failSig, FailMsg: failMsg, Steps: steps, VirtualNs: now}
			if keepTrace {
				r.Trace = append([]string{}, trace[:ntrace]...)
			}
			cfg.OnExec(r)
		}
		if cfg.MaxExec > 0 && st.Executions >= cfg.MaxExec {
			st.Complete = false
			break
		}
		// next: deepest decision (beyond the fixed prefix) with an untried alternative within the bound
		next := -1
		for i := nchoices - 1; i >= base; i-- {
			if choices[i]+1 < nalts[i] {
				cost := costs[i]
				if choices[i]+1 >= freeAlt[i] {
					cost++
				}
				if cost <= cfg.Bound {
					next = i
					break
				}
			}
		}
		if next < 0 {
			break
		}
		prefix = append(append([]int{}, choices[:next]...), choices[next]+1)
	}
	return st
}

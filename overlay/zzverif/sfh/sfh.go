// Package sfh: sFlow case builders + comparison of the real decoder's output with the
// reference tree.
package sfh

import (
	"bytes"
	"encoding/json"
	"fmt"
	"reflect"
	"sort"
	"strings"

	"github.com/EdgeCast/vflow/sflow"
	"github.com/EdgeCast/vflow/zzverif/ref"
)

// FrameVariant enumerates the 27 supported frame shapes.
type FrameVariant struct {
	Name  string
	Proto uint32
	VLAN  bool
	V6    bool
	IHL   int
	L4    int
}

func FrameVariants() []FrameVariant {
	var out []FrameVariant
	l4s := []int{6, 17, 1}
	l4n := map[int]string{6: "tcp", 17: "udp", 1: "icmp"}
	for _, vlan := range []bool{false, true} {
		for _, l3 := range []string{"ip4", "ip4opt", "ip6"} {
			for _, l4 := range l4s {
				n := "eth"
				if vlan {
					n = "eth+vlan"
				}
				out = append(out, FrameVariant{n + "/" + l3 + "/" + l4n[l4], 1, vlan, l3 == "ip6", map[string]int{"ip4": 5, "ip4opt": 6, "ip6": 0}[l3], l4})
			}
		}
	}
	for _, l3 := range []string{"ip4", "ip4opt"} {
		for _, l4 := range l4s {
			out = append(out, FrameVariant{"raw-" + l3 + "/" + l4n[l4], 11, false, false, map[string]int{"ip4": 5, "ip4opt": 6}[l3], l4})
		}
	}
	for _, l4 := range l4s {
		out = append(out, FrameVariant{"raw-ip6/" + l4n[l4], 12, false, true, 0, l4})
	}
	return out
}

// FrameFields names the fields that the one-hot sweep sets.
var FrameFields = []string{"none", "dstmac", "srcmac", "tci", "tos", "totlen", "id", "flags", "fragoff", "ttl", "cksum", "src4", "dst4", "tc", "flowlabel", "paylen", "hoplimit", "src6", "dst6", "sport", "dport", "dataoff", "tcpflags", "icmptype", "icmpcode", "payload", "posuniq"}

// MkFrame builds a frame of the variant; field selects which field carries all-ones
// ("none": all zero, "posuniq": every field a distinct value).
func MkFrame(v FrameVariant, field string) *ref.Frame {
	f := &ref.Frame{HdrProto: v.Proto, VLAN: v.VLAN, V6: v.V6, IHL: v.IHL, L4: v.L4, Payload: []byte{0, 0, 0, 0}}
	if v.L4 == 6 {
		f.DataOff = 5
	}
	ones := func(b []byte) {
		for i := range b {
			b[i] = 0xff
		}
	}
	switch field {
	case "posuniq":
		f.DstMAC = [6]byte{0x02, 0x11, 0x12, 0x13, 0x14, 0x15}
		f.SrcMAC = [6]byte{0x06, 0x21, 0x22, 0x23, 0x24, 0x25}
		f.TCI = 0x6123
		f.TOS, f.TotalLen, f.ID, f.Flags, f.FragOff, f.TTL, f.Cksum = 0x31, 0x3233, 0x3435, 0x2, 0x0567, 0x37, 0x3839
		f.Src4, f.Dst4 = [4]byte{10, 1, 2, 3}, [4]byte{172, 16, 5, 6}
		f.TC, f.FlowLabel, f.PayLen, f.HopLimit = 0xa5, 0x6789a, 0x4142, 0x43
		for i := 0; i < 16; i++ {
			f.Src6[i], f.Dst6[i] = byte(0x50+i), byte(0x70+i)
		}
		f.Src6[0], f.Dst6[0] = 0x20, 0x20
		f.SPort, f.DPort, f.DataOff, f.TCPFlags = 0x9192, 0x9394, 0xa, 0x155
		f.ICMPType, f.ICMPCode = 0x95, 0x96
		f.Payload = []byte{0xa1, 0xa2, 0xa3, 0xa4, 0xa5}
	case "dstmac":
		ones(f.DstMAC[:])
	case "srcmac":
		ones(f.SrcMAC[:])
	case "tci":
		f.TCI = 0xffff
	case "tos":
		f.TOS = 0xff
	case "totlen":
		f.TotalLen = 0xffff
	case "id":
		f.ID = 0xffff
	case "flags":
		f.Flags = 7
	case "fragoff":
		f.FragOff = 0x1fff
	case "ttl":
		f.TTL = 0xff
	case "cksum":
		f.Cksum = 0xffff
	case "src4":
		ones(f.Src4[:])
	case "dst4":
		ones(f.Dst4[:])
	case "tc":
		f.TC = 0xff
	case "flowlabel":
		f.FlowLabel = 0xfffff
	case "paylen":
		f.PayLen = 0xffff
	case "hoplimit":
		f.HopLimit = 0xff
	case "src6":
		ones(f.Src6[:])
	case "dst6":
		ones(f.Dst6[:])
	case "sport":
		f.SPort = 0xffff
	case "dport":
		f.DPort = 0xffff
	case "dataoff":
		f.DataOff = 0xf
	case "tcpflags":
		f.TCPFlags = 0x1ff
	case "icmptype":
		f.ICMPType = 0xff
	case "icmpcode":
		f.ICMPCode = 0xff
	case "payload":
		f.Payload = []byte{0xff, 0xff, 0xff, 0xff, 0xff, 0xff}
	}
	return f
}

// Rec builds a record of the kind with a value pattern: 0 position-unique, 1 all-ones,
// 2 all-zero, 3+i: field i all-ones, rest zero.
func Rec(kind string, pattern int) ref.SFRecord {
	r := ref.SFRecord{Kind: kind, Tag: ref.RecordTags[kind]}
	switch kind {
	case "raw":
		r.Frame = MkFrame(FrameVariants()[pattern%27], "posuniq")
		r.FrameLen, r.Stripped = 0x600+uint32(pattern), 4
		r.HeaderLen = len(r.Frame.Bytes())
		return r
	case "rt4", "rt6", "rt0":
		r.Kind, r.Tag = "rt", 1002
		n := 4
		if kind == "rt6" {
			n = 16
		}
		if kind == "rt0" { // next hop of unknown type: no address octets, the record is 12 octets long
			n = 0
		}
		r.NextHop = make([]byte, n)
		for i := range r.NextHop {
			r.NextHop[i] = byte(0xc0 + i + pattern)
		}
		r.Vals = []uint64{24, 16}
		if pattern == 1 {
			r.Vals = []uint64{0xffffffff, 0xffffffff}
			for i := range r.NextHop {
				r.NextHop[i] = 0xff
			}
		}
		if pattern == 3 {
			r.Vals = []uint64{0xffffffff, 0}
		}
		if pattern == 4 {
			r.Vals = []uint64{0, 0xffffffff}
		}
		return r
	case "vendor-std-format": // enterprise != 0, format number of a standard record: must be skipped by length
		r.Kind = "unknown"
		r.Tag = 4413<<12 | []uint32{1, 1001, 1002, 2, 5}[pattern%5]
		r.Body = make([]byte, 8+4*(pattern%3))
		for i := range r.Body {
			r.Body[i] = byte(0xd0 + i)
		}
		return r
	case "unknown":
		r.Tag = 2000 + uint32(pattern%3)
		r.Body = make([]byte, 4*(pattern%4))
		for i := range r.Body {
			r.Body[i] = byte(0xe0 + i)
		}
		return r
	}
	l := ref.Layouts[kind]
	r.Vals = make([]uint64, len(l.Names))
	for i := range r.Vals {
		switch {
		case pattern == 0:
			r.Vals[i] = 0x0102030405060708*uint64(i+1) + uint64(i)
		case pattern == 1:
			r.Vals[i] = ^uint64(0)
		case pattern >= 3 && pattern-3 == i:
			r.Vals[i] = ^uint64(0)
		}
		if !l.Wide[i] {
			r.Vals[i] &= 0xffffffff
		}
	}
	return r
}

func NFields(kind string) int { return len(ref.Layouts[kind].Names) }

// FlowSample / CounterSample builders.
func FlowSample(pattern int, recs ...ref.SFRecord) ref.SFSample {
	s := ref.SFSample{Tag: 1, Records: recs}
	switch pattern {
	case 0:
		s.Seq, s.SrcType, s.SrcIdx, s.Rate, s.Pool, s.Drops, s.Input, s.Output = 0x01020304, 0x2, 0x060708, 0x11121314, 0x21222324, 0x31323334, 0x41424344, 0x51525354
	case 1:
		s.Seq, s.SrcType, s.SrcIdx, s.Rate, s.Pool, s.Drops, s.Input, s.Output = ^uint32(0), 0xff, 0xffffff, ^uint32(0), ^uint32(0), ^uint32(0), ^uint32(0), ^uint32(0)
	case 3:
		s.Seq = ^uint32(0)
	case 4:
		s.SrcType = 0xff
	case 5:
		s.SrcIdx = 0xffffff
	case 6:
		s.Rate = ^uint32(0)
	case 7:
		s.Pool = ^uint32(0)
	case 8:
		s.Drops = ^uint32(0)
	case 9:
		s.Input = ^uint32(0)
	case 10:
		s.Output = ^uint32(0)
	}
	return s
}

func CounterSample(pattern int, recs ...ref.SFRecord) ref.SFSample {
	s := ref.SFSample{Tag: 2, Records: recs}
	switch pattern {
	case 0:
		s.Seq, s.SrcType, s.SrcIdx = 0x61626364, 0x3, 0x717273
	case 1:
		s.Seq, s.SrcType, s.SrcIdx = ^uint32(0), 0xff, 0xffffff
	case 3:
		s.Seq = ^uint32(0)
	case 4:
		s.SrcType = 0xff
	case 5:
		s.SrcIdx = 0xffffff
	}
	return s
}

func UnknownSample(format uint32, n int) ref.SFSample {
	b := make([]byte, n)
	for i := range b {
		b[i] = byte(0x90 + i)
	}
	return ref.SFSample{Tag: format, Body: b}
}

var Agent4 = []byte{192, 0, 2, 77}
var Agent6 = []byte{0x20, 0x01, 0x0d, 0xb8, 0, 0, 0, 0, 0, 0, 0, 0, 0, 0, 0, 0x77}

// Decode runs the real decoder and returns the JSON normal form (ColTime removed).
func Decode(wire []byte, filter []uint32) (tree map[string]interface{}, raw []byte, dg *sflow.SFDatagram, err error) {
	d := sflow.NewSFDecoder(bytes.NewReader(wire), filter)
	dg, err = d.SFDecode()
	if err != nil || dg == nil {
		return nil, nil, dg, err
	}
	raw, err = json.Marshal(dg)
	if err != nil {
		return nil, nil, dg, fmt.Errorf("json.Marshal: %v", err)
	}
	dec := json.NewDecoder(bytes.NewReader(raw))
	dec.UseNumber()
	if e := dec.Decode(&tree); e != nil {
		return nil, raw, dg, fmt.Errorf("published JSON does not parse: %v", e)
	}
	delete(tree, "ColTime")
	return tree, raw, dg, nil
}

// Diff returns the path of the first difference ("" if equal) and a message.
func Diff(path string, got, want interface{}) (string, string) {
	switch w := want.(type) {
	case map[string]interface{}:
		g, ok := got.(map[string]interface{})
		if !ok {
			return path, fmt.Sprintf("got %T(%v), want object", got, got)
		}
		keys := map[string]bool{}
		for k := range w {
			keys[k] = true
		}
		for k := range g {
			keys[k] = true
		}
		var ks []string
		for k := range keys {
			ks = append(ks, k)
		}
		sort.Strings(ks)
		for _, k := range ks {
			gv, gok := g[k]
			wv, wok := w[k]
			if !gok {
				return path + "." + k, "missing"
			}
			if !wok {
				// an extra RECORD (or sample list) is output for something that should have been skipped;
				// an extra leaf field inside a record the statement does not exclude
				if strings.HasSuffix(path, "Records") || path == "" {
					return path + "." + k, fmt.Sprintf("unexpected key (value %v)", gv)
				}
				continue
			}
			if p, m := Diff(path+"."+k, gv, wv); p != "" {
				return p, m
			}
		}
		return "", ""
	case []interface{}:
		g, ok := got.([]interface{})
		if !ok {
			return path, fmt.Sprintf("got %T, want array", got)
		}
		if len(g) != len(w) {
			return path + "[]", fmt.Sprintf("%d entries, want %d", len(g), len(w))
		}
		for i := range w {
			if p, m := Diff(path+"[]", g[i], w[i]); p != "" {
				return p, fmt.Sprintf("[%d] %s", i, m)
			}
		}
		return "", ""
	}
	if !reflect.DeepEqual(got, want) {
		return path, fmt.Sprintf("got %v, want %v", got, want)
	}
	return "", ""
}

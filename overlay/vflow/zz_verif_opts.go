//go:build verif

// C17 (configuration precedence) and the option-parsing part of C18, driven through the real
// NewOptions() + flagSet() (exactly what GetOptions does before logging / PID handling).
package main

import (
	"flag"
	"fmt"
	"io"
	"log"
	"os"
	"path/filepath"
	"reflect"
	"sort"
	"strconv"
	"strings"

	"github.com/EdgeCast/vflow/zzverif/mck"
)

type setting struct {
	field int
	name  string // Go field name
	kind  reflect.Kind
	yaml  string
	env   string
	flag  string
}

func optsDir() string {
	d := filepath.Join(pipeTmpGet(), "opts")
	os.MkdirAll(d, 0755)
	return d
}

// cfgSpelling: how the configuration file is named on the command line. Go's flag package accepts all four.
var cfgSpelling int

var cfgSpellings = []string{"-config FILE", "-config=FILE", "--config FILE", "--config=FILE",
	// relative names, resolved against the working directory as any file name is
	"-config NAME (bare name, in the working directory)", "-config ./NAME", "-config=NAME (bare name)", "-config SUBDIR/NAME",
	// the file reached through symbolic links: one link, and the way a Kubernetes ConfigMap volume presents it
	// (vflow.conf -> ..data/vflow.conf, ..data -> ..<timestamp>/)
	"-config LINK (symbolic link to the file)", "-config LINK (ConfigMap volume: link -> ..data/NAME, ..data -> directory)"}

// runFlagSet runs the real option loading with the given environment, file content and arguments.
func runFlagSet(env map[string]string, file string, args []string) (o *Options, err interface{}) {
	for _, kv := range os.Environ() {
		if strings.HasPrefix(kv, "VFLOW_") {
			os.Unsetenv(strings.SplitN(kv, "=", 2)[0])
		}
	}
	for k, v := range env {
		os.Setenv(k, v)
	}
	full := []string{"vflow"}
	if file != "" {
		p := filepath.Join(optsDir(), "vflow.conf")
		os.WriteFile(p, []byte(file), 0644)
		if cfgSpelling == 8 {
			l := filepath.Join(optsDir(), "link.conf")
			os.Remove(l)
			if os.Symlink("vflow.conf", l) == nil {
				p = l
			}
		}
		if cfgSpelling == 9 {
			cm := filepath.Join(optsDir(), "cm")
			os.MkdirAll(filepath.Join(cm, "..2026_09_28"), 0755)
			os.WriteFile(filepath.Join(cm, "..2026_09_28", "vflow.conf"), []byte(file), 0644)
			os.Remove(filepath.Join(cm, "..data"))
			os.Remove(filepath.Join(cm, "vflow.conf"))
			if os.Symlink("..2026_09_28", filepath.Join(cm, "..data")) == nil && os.Symlink("..data/vflow.conf", filepath.Join(cm, "vflow.conf")) == nil {
				p = filepath.Join(cm, "vflow.conf")
			}
		}
		if cfgSpelling >= 4 && cfgSpelling <= 7 {
			wd, _ := os.Getwd()
			os.Chdir(optsDir())
			defer os.Chdir(wd)
			if cfgSpelling == 7 {
				os.MkdirAll(filepath.Join(optsDir(), "sub"), 0755)
				os.WriteFile(filepath.Join(optsDir(), "sub", "vflow.conf"), []byte(file), 0644)
			}
		}
		switch cfgSpelling {
		case 4:
			full = append(full, "-config", "vflow.conf")
		case 5:
			full = append(full, "-config", "./vflow.conf")
		case 6:
			full = append(full, "-config=vflow.conf")
		case 7:
			full = append(full, "-config", "sub/vflow.conf")
		case 1:
			full = append(full, "-config="+p)
		case 2:
			full = append(full, "--config", p)
		case 3:
			full = append(full, "--config="+p)
		default:
			full = append(full, "-config", p)
		}
	}
	full = append(full, args...)
	os.Args = full
	flag.CommandLine = flag.NewFlagSet("vflow", flag.ContinueOnError)
	flag.CommandLine.SetOutput(io.Discard)
	o = NewOptions()
	o.Logger = log.New(io.Discard, "", 0)
	defer func() {
		if r := recover(); r != nil {
			err = r
		}
	}()
	o.flagSet()
	return o, nil
}

func fieldVal(o *Options, i int) string {
	return fmt.Sprint(reflect.ValueOf(o).Elem().Field(i).Interface())
}

// discover builds the key <-> field <-> flag <-> yaml <-> env table from the code itself.
func discover() []setting {
	base, _ := runFlagSet(nil, "", nil)
	t := reflect.TypeOf(*base)
	var ss []setting
	for i := 0; i < t.NumField(); i++ {
		f := t.Field(i)
		y := strings.Split(f.Tag.Get("yaml"), ",")[0] // the key is the tag up to the first comma (options such as omitempty follow)
		k := f.Type.Kind()
		if y == "" || (k != reflect.Int && k != reflect.String && k != reflect.Bool) {
			continue
		}
		ss = append(ss, setting{field: i, name: f.Name, kind: k, yaml: y, env: "VFLOW_" + strings.ReplaceAll(strings.ToUpper(y), "-", "_")})
	}
	var flags []*flag.Flag
	flag.CommandLine.VisitAll(func(f *flag.Flag) { flags = append(flags, f) })
	for _, f := range flags {
		var try []string
		try = append(try, "-"+f.Name+"=424242", "-"+f.Name+"=zzsentinel", "-"+f.Name+"=true", "-"+f.Name+"=false")
		for _, a := range try {
			o, err := runFlagSet(nil, "", []string{a})
			if err != nil || o == nil {
				continue
			}
			for si := range ss {
				if fieldVal(o, ss[si].field) != fieldVal(base, ss[si].field) && ss[si].flag == "" {
					ss[si].flag = f.Name
				}
			}
		}
	}
	return ss
}

func valFor(s setting, src int, alt int) string {
	switch s.kind {
	case reflect.Int:
		return strconv.Itoa(1101*(src+1) + alt)
	case reflect.String:
		base := []string{"from-env", "from-file", "from-cmd"}[src]
		// value shapes that are delicate for one of the three syntaxes (KEY=value, YAML, -flag=value)
		return base + []string{"", "=with=equals", " with space", ": colon #hash", "/path/site=a1/x.y", "'quoted'", "\"dq\"", "x"}[alt%8]
	}
	return ""
}

func yamlLine(s setting, v string) string {
	if s.kind == reflect.String {
		return fmt.Sprintf("%s: %q\n", s.yaml, v)
	}
	return fmt.Sprintf("%s: %s\n", s.yaml, v)
}

var srcNames = []string{"env", "file", "cmd"}

func init() {
	pipeSpaces["opts.single"] = optsSingle
	pipeSpaces["opts.pairs"] = optsPairs
	pipeSpaces["opts.filter"] = optsFilter
}

// every setting x every subset of {env, file, cmd} x value assignment
func optsSingle(tier string) mck.Space {
	ss := discover()
	// per setting: subsets 0..7; for bools every assignment (<= 8) -> index space setting x subset x 8
	dims := mck.Radix{uint64(len(ss)), 8, 8, uint64(len(cfgSpellings))}
	return mck.FuncSpace{N: dims.Size(), F: func(idx uint64, c *mck.Ctx) {
		d := dims.Digits(idx)
		s := ss[d[0]]
		subset, asg := d[1], d[2]
		// the spelling of -config matters only where a file is given; flags are spelled with one or two dashes alike
		if d[3] != 0 && subset&2 == 0 && d[0]%2 != 0 {
			c.Skip()
			return
		}
		cfgSpelling = d[3]
		defer func() { cfgSpelling = 0 }()
		dash := "-"
		if d[3] == 2 || d[3] == 3 {
			dash = "--"
		}
		if s.flag == "" && subset&4 != 0 {
			c.Violation("opts:no-flag:"+s.yaml, "setting has no command-line flag", nil)
			return
		}
		// the flag-to-setting table is discovered by probing the code: a flag that is NAMED like one setting's key
		// but sets another setting must not be taken for "that setting's flag"
		for _, t := range ss {
			if t.field != s.field && s.flag == t.yaml {
				c.Violation("opts:flag-sets-another-setting", fmt.Sprintf("the command-line flag -%s sets %s, not %s", s.flag, s.yaml, t.yaml), nil)
				return
			}
		}
		nsrc := 0
		for b := 0; b < 3; b++ {
			if subset&(1<<b) != 0 {
				nsrc++
			}
		}
		if s.kind == reflect.Int && asg != 0 || s.kind == reflect.Bool && asg >= 1<<nsrc || s.kind == reflect.String && nsrc == 0 && asg != 0 {
			c.Skip()
			return
		}
		env := map[string]string{}
		file := ""
		var args []string
		vals := map[int]string{}
		k := 0
		for b := 0; b < 3; b++ {
			if subset&(1<<b) == 0 {
				continue
			}
			v := valFor(s, b, 0)
			if s.kind == reflect.String {
				v = valFor(s, b, asg)
			}
			if s.kind == reflect.Bool {
				v = strconv.FormatBool(asg&(1<<k) != 0)
			}
			k++
			vals[b] = v
			switch b {
			case 0:
				env[s.env] = v
			case 1:
				file = yamlLine(s, v)
			case 2:
				args = append(args, dash+s.flag+"="+v)
			}
		}
		if subset&2 == 0 && d[0]%2 == 0 {
			file = "# no keys\n" // a config file that lacks the key
		}
		desc := func() interface{} {
			return map[string]interface{}{"setting": s.yaml, "field": s.name, "flag": s.flag, "env": env, "file": file, "args": args, "config_given_as": cfgSpellings[d[3]]}
		}
		c.SetCase(desc)
		base := NewOptions()
		want := fieldVal(base, s.field)
		from := "default"
		for b := 0; b < 3; b++ { // env < file < cmd
			if v, ok := vals[b]; ok {
				want, from = v, srcNames[b]
			}
		}
		o, err := runFlagSet(env, file, args)
		if err != nil || o == nil {
			c.Violation("opts:panic", fmt.Sprint(err), desc())
			return
		}
		got := fieldVal(o, s.field)
		c.Nontrivial(mck.HashStr(s.yaml, fmt.Sprint(subset, asg, d[3])))
		c.Outcome("from-" + from)
		if got != want {
			var have []string
			for b := 0; b < 3; b++ {
				if _, ok := vals[b]; ok {
					have = append(have, srcNames[b])
				}
			}
			dd := desc().(map[string]interface{})
			dd["got"], dd["want"], dd["want_from"] = got, want, from
			sp := ""
			if d[3] != 0 {
				sp = ":" + cfgSpellings[d[3]][:strings.Index(cfgSpellings[d[3]], "g")+1] + map[bool]string{true: "=", false: " "}[d[3]%2 == 1] + "FILE"
				if d[3] >= 4 {
					sp = ":relative-config-path"
				}
				if d[3] >= 8 {
					sp = ":config-behind-symlink"
				}
			}
			c.Violation(fmt.Sprintf("opts:precedence:%s:given[%s]%s", s.kind, strings.Join(have, "+"), sp), fmt.Sprintf("%s = %q, expected %q (from %s; config given as %s)", s.yaml, got, want, from, cfgSpellings[d[3]]), dd)
		}
		// every OTHER setting keeps its default
		for _, t := range ss {
			if t.field != s.field && fieldVal(o, t.field) != fieldVal(base, t.field) {
				c.Violation("opts:interference", fmt.Sprintf("setting %s changed %s", s.yaml, t.yaml), desc())
				break
			}
		}
		c.Sample(desc)
	}}
}

// every pair of settings taking their values from every ordered pair of sources
func optsPairs(tier string) mck.Space {
	ss := discover()
	n := uint64(len(ss))
	dims := mck.Radix{n, n, 3, 3}
	return mck.FuncSpace{N: dims.Size(), F: func(idx uint64, c *mck.Ctx) {
		d := dims.Digits(idx)
		if d[0] >= d[1] {
			c.Skip()
			return
		}
		a, b := ss[d[0]], ss[d[1]]
		if a.flag == "" || b.flag == "" {
			c.Skip()
			return
		}
		env := map[string]string{}
		file := ""
		var args []string
		put := func(s setting, src int, alt int) string {
			v := valFor(s, src, alt)
			if s.kind == reflect.Bool {
				base := NewOptions()
				cur, _ := strconv.ParseBool(fieldVal(base, s.field))
				v = strconv.FormatBool(!cur)
			}
			switch src {
			case 0:
				env[s.env] = v
			case 1:
				file += yamlLine(s, v)
			case 2:
				args = append(args, "-"+s.flag+"="+v)
			}
			return v
		}
		wa := put(a, d[2], 0)
		wb := put(b, d[3], 1)
		desc := func() interface{} {
			return map[string]interface{}{"settings": []string{a.yaml, b.yaml}, "sources": []string{srcNames[d[2]], srcNames[d[3]]}, "env": env, "file": file, "args": args}
		}
		c.SetCase(desc)
		o, err := runFlagSet(env, file, args)
		if err != nil || o == nil {
			c.Violation("opts:panic", fmt.Sprint(err), desc())
			return
		}
		c.Nontrivial(mck.HashStr(a.yaml, b.yaml, fmt.Sprint(d[2], d[3])))
		if ga, gb := fieldVal(o, a.field), fieldVal(o, b.field); ga != wa || gb != wb {
			c.Violation("opts:pair", fmt.Sprintf("%s=%q (want %q), %s=%q (want %q)", a.yaml, ga, wa, b.yaml, gb, wb), desc())
		}
		base := NewOptions()
		for _, t := range ss {
			if t.field != a.field && t.field != b.field && fieldVal(o, t.field) != fieldVal(base, t.field) {
				c.Violation("opts:interference", fmt.Sprintf("settings %s,%s changed %s", a.yaml, b.yaml, t.yaml), desc())
				break
			}
		}
		c.Outcome(srcNames[d[2]] + "+" + srcNames[d[3]])
	}}
}

// C18 option parsing: the sFlow type filter from the command line (comma lists) and from the
// YAML file, and its precedence.
func optsFilter(tier string) mck.Space {
	toks := []string{"0", "1", "2", "3", "4294967295", "4294967296", "-1", "x", ""}
	var lists [][]string
	for _, a := range toks {
		lists = append(lists, []string{a})
		for _, b := range toks {
			lists = append(lists, []string{a, b})
			for _, cc := range toks[:5] {
				lists = append(lists, []string{a, b, cc})
			}
		}
	}
	dims := mck.Radix{uint64(len(lists)), 5} // source: cmd, file, file+cmd, cmd with the flag repeated, file + repeated flag
	return mck.FuncSpace{N: dims.Size(), F: func(idx uint64, c *mck.Ctx) {
		d := dims.Digits(idx)
		l := lists[d[0]]
		valid := true
		var want []uint32
		for _, t := range l {
			v, err := strconv.ParseUint(t, 10, 32)
			if err != nil {
				valid = false
				break
			}
			want = append(want, uint32(v))
		}
		desc := func() interface{} {
			return map[string]interface{}{"list": l, "source": []string{"cmd", "file", "file+cmd", "cmd, one -sflow-type-filter per type", "file + cmd, one -sflow-type-filter per type"}[d[1]]}
		}
		c.SetCase(desc)
		c.Nontrivial(mck.HashStr(strings.Join(l, ","), fmt.Sprint(d[1])))
		switch d[1] {
		case 0: // command line through arrUInt32Flags.Set
			var a arrUInt32Flags
			err := a.Set(strings.Join(l, ","))
			if valid != (err == nil) {
				c.Violation("opts:filter:set-error", fmt.Sprintf("Set(%q) error=%v, list valid=%v", strings.Join(l, ","), err, valid), desc())
				return
			}
			if valid && fmt.Sprint([]uint32(a)) != fmt.Sprint(want) {
				c.Violation("opts:filter:set-value", fmt.Sprintf("Set(%q) = %v, expected %v", strings.Join(l, ","), a, want), desc())
			}
			if valid {
				o, err := runFlagSet(nil, "", []string{"-sflow-type-filter", strings.Join(l, ",")})
				if err != nil || fmt.Sprint([]uint32(o.SFlowTypeFilter)) != fmt.Sprint(want) {
					c.Violation("opts:filter:cmd", fmt.Sprintf("-sflow-type-filter %s gave %v (%v)", strings.Join(l, ","), o.SFlowTypeFilter, err), desc())
				}
			}
			c.Outcome(fmt.Sprintf("cmd valid=%v", valid))
		case 1: // YAML list
			if !valid {
				c.Skip()
				return
			}
			o, err := runFlagSet(nil, "sflow-type-filter: ["+strings.Join(l, ", ")+"]\n", nil)
			if err != nil || fmt.Sprint([]uint32(o.SFlowTypeFilter)) != fmt.Sprint(want) {
				c.Violation("opts:filter:file", fmt.Sprintf("file list %v gave %v (%v)", l, o.SFlowTypeFilter, err), desc())
			}
			c.Outcome("file")
		case 2: // file says [1,2], the command line says l: the command line wins
			if !valid {
				c.Skip()
				return
			}
			o, err := runFlagSet(nil, "sflow-type-filter: [7, 8]\n", []string{"-sflow-type-filter", strings.Join(l, ",")})
			if err != nil || fmt.Sprint([]uint32(o.SFlowTypeFilter)) != fmt.Sprint(want) {
				c.Violation("opts:filter:cmd-over-file", fmt.Sprintf("file [7 8] + command line %v gave %v, expected the command line's %v", l, o.SFlowTypeFilter, want), desc())
			}
			c.Outcome("file+cmd")
		case 3, 4: // the flag repeated, one occurrence per type: a type named in any occurrence is listed
			if !valid || len(l) < 2 {
				c.Skip()
				return
			}
			var args []string
			for _, t := range l {
				args = append(args, "-sflow-type-filter", t)
			}
			file := ""
			if d[1] == 4 {
				file = "sflow-type-filter: [7, 8]\n"
			}
			o, err := runFlagSet(nil, file, args)
			asSet := func(a []uint32) string {
				m := map[uint32]bool{}
				for _, v := range a {
					m[v] = true
				}
				var k []int
				for v := range m {
					k = append(k, int(v))
				}
				sort.Ints(k)
				return fmt.Sprint(k)
			}
			if err != nil || o == nil {
				c.Violation("opts:filter:repeated-flag", fmt.Sprintf("%v failed: %v", args, err), desc())
			} else if asSet(o.SFlowTypeFilter) != asSet(want) {
				c.Violation("opts:filter:repeated-flag", fmt.Sprintf("%v (file %q) gave the filter %v, expected the types %v", args, file, o.SFlowTypeFilter, want), desc())
			}
			c.Outcome("repeated flag")
		}
	}}
}

func settingsTable() []string {
	var out []string
	for _, s := range discover() {
		out = append(out, fmt.Sprintf("%s field=%s flag=-%s env=%s kind=%s", s.yaml, s.name, s.flag, s.env, s.kind))
	}
	sort.Strings(out)
	return out
}

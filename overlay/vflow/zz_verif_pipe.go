//go:build verif

// Harness for the four receive/decode/publish pipelines of package main (C12, C13, C15, C16).
// The package's own files are replaced by mechanically instrumented copies (tools/goinstr);
// this file drives the REAL run() / worker / shutdown() code under the controlled scheduler.
package main

import (
	"bytes"
	"encoding/json"
	"fmt"
	"io"
	"log"
	"net"
	"os"
	"path/filepath"
	"reflect"
	"regexp"
	"sort"
	"strings"
	realsync "sync"
	"syscall"

	"github.com/EdgeCast/vflow/ipfix"
	netflow5 "github.com/EdgeCast/vflow/netflow/v5"
	netflow9 "github.com/EdgeCast/vflow/netflow/v9"
	"github.com/EdgeCast/vflow/sflow"
	"github.com/EdgeCast/vflow/zzverif/flowh"
	"github.com/EdgeCast/vflow/zzverif/mck"
	"github.com/EdgeCast/vflow/zzverif/ref"
	"github.com/EdgeCast/vflow/zzverif/sched"
	"github.com/EdgeCast/vflow/zzverif/sfh"
	"github.com/EdgeCast/vflow/zzverif/venv"
	sync "github.com/EdgeCast/vflow/zzverif/vsync"
)

var pipeTmpOnce string

// pipeTmp is created lazily (under VERIF_TMP, which the orchestrator removes after the run)
func pipeTmpGet() string {
	if pipeTmpOnce != "" {
		return pipeTmpOnce
	}
	d := os.Getenv("VERIF_TMP")
	if d == "" {
		d = os.TempDir()
	}
	p, err := os.MkdirTemp(d, "pipew")
	if err != nil {
		panic(err)
	}
	pipeTmpOnce = p
	return p
}

const (
	ppIPFIX = iota
	ppV9
	ppV5
	ppSFlow
)

var ppNames = []string{"ipfix", "netflow9", "netflow5", "sflow"}

// chanCap is the capacity the harness gives the package-level queues (1000 in production;
// scaled down so that "queue full" is reachable where a scenario wants it).
type pipeCfg struct {
	proto   int
	workers int
	udpCap  int
	mqCap   int
	cache   string
	filter  []uint32
	mirror  int // >0: mirroring enabled towards 127.0.0.1:<mirror>
	// mirrorDead: the mirror target is 255.255.255.255 - the raw socket's sendto fails (EACCES without
	// SO_BROADCAST) and the mirror worker returns; nobody drains the mirror queues from then on
	mirrorDead bool
	qcap       int // capacity of every queue created with a literal capacity (0 = as written, 1000)
	udpSize    int // <protocol>-max-udp-size (0 = the default 1500)
	verbose    bool // -verbose: the collector logs what it drops (the logger writes to nowhere)
}

// resetPipe re-creates every package-level object of one pipeline and the options.
func resetPipe(c pipeCfg) proto {
	venv.Reset()
	logger = log.New(io.Discard, "", 0)
	o := NewOptions()
	o.Logger = logger
	o.ProducerEnabled, o.DynWorkers, o.IPFIXRPCEnabled, o.StatsEnabled = false, false, false, false
	o.Verbose = c.verbose
	o.VFlowConfigPath = filepath.Join(pipeTmpGet(), "no-such-config-dir")
	o.SFlowEnabled, o.IPFIXEnabled, o.NetflowV5Enabled, o.NetflowV9Enabled = false, false, false, false
	o.IPFIXTplCacheFile = filepath.Join(pipeTmpGet(), "unused-ipfix.cache")
	o.NetflowV9TplCacheFile = filepath.Join(pipeTmpGet(), "unused-v9.cache")
	if c.mirror > 0 {
		to := "127.0.0.1"
		if c.mirrorDead {
			to = "255.255.255.255"
		}
		o.IPFIXMirrorAddr, o.IPFIXMirrorPort, o.IPFIXMirrorWorkers = to, c.mirror, 1
		o.SFlowMirrorAddr, o.SFlowMirrorPort, o.SFlowMirrorWorkers = to, c.mirror, 1
	}
	venv.SetQueueCap(c.qcap)
	mcap := 1000
	if c.qcap > 0 {
		mcap = c.qcap
	}
	if c.udpSize > 0 {
		o.IPFIXUDPSize, o.NetflowV9UDPSize, o.NetflowV5UDPSize, o.SFlowUDPSize = c.udpSize, c.udpSize, c.udpSize, c.udpSize
	}
	opts = o
	switch c.proto {
	case ppIPFIX:
		o.IPFIXEnabled, o.IPFIXWorkers, o.IPFIXPort, o.IPFIXTplCacheFile = true, c.workers, 4739, c.cache
		ipfixUDPCh = make(chan IPFIXUDPMsg, c.udpCap)
		ipfixMCh = make(chan IPFIXUDPMsg, mcap)
		ipfixMQCh = make(chan []byte, c.mqCap)
		ipfixMirrorEnabled = false
		mCache = nil
		ipfixBuffer = &sync.Pool{New: func() interface{} { return make([]byte, opts.IPFIXUDPSize) }}
		return NewIPFIX()
	case ppV9:
		o.NetflowV9Enabled, o.NetflowV9Workers, o.NetflowV9Port, o.NetflowV9TplCacheFile = true, c.workers, 4729, c.cache
		netflowV9UDPCh = make(chan NetflowV9UDPMsg, c.udpCap)
		netflowV9MQCh = make(chan []byte, c.mqCap)
		mCacheNF9 = nil
		netflowV9Buffer = &sync.Pool{New: func() interface{} { return make([]byte, opts.NetflowV9UDPSize) }}
		return NewNetflowV9()
	case ppV5:
		o.NetflowV5Enabled, o.NetflowV5Workers, o.NetflowV5Port = true, c.workers, 9996
		netflowV5UDPCh = make(chan NetflowV5UDPMsg, c.udpCap)
		netflowV5MQCh = make(chan []byte, c.mqCap)
		netflowV5Buffer = &sync.Pool{New: func() interface{} { return make([]byte, opts.NetflowV5UDPSize) }}
		return NewNetflowV5()
	default:
		o.SFlowEnabled, o.SFlowWorkers, o.SFlowPort, o.SFlowTypeFilter = true, c.workers, 6343, c.filter
		sFlowUDPCh = make(chan SFUDPMsg, c.udpCap)
		sFlowMCh = make(chan SFUDPMsg, mcap)
		sFlowMQCh = make(chan []byte, c.mqCap)
		sFlowMirrorEnabled = false
		sFlowBuffer = &sync.Pool{New: func() interface{} { return make([]byte, opts.SFlowUDPSize) }}
		return NewSFlow()
	}
}

// ---- the REAL main() (renamed vflowMain by the instrumenter) --------------------------------------
// main()'s calls of GetOptions and of the four constructors are redirected here: GetOptions cannot be re-run
// per execution (flag registration, PID file, kill -0), the constructors are wrapped so that the harness can
// look at the objects main() creates. Everything else in main() - signal registration, starting the
// protocols, waiting for the signal, the shutdown calls, the final wait - is the repository's code.
// (a fixed array touched only from norace functions: the harness looking at what main() constructed must not
// synchronise the two, nor be reported as racing with it)
var mainProtos [4]proto

//go:norace
func setMainProto(i int, p proto) { mainProtos[i] = p }

//go:norace
func getMainProto(i int) proto { return mainProtos[i] }

func zzGetOptions() *Options { return opts }
func zzNewSFlow() *SFlow     { p := NewSFlow(); setMainProto(ppSFlow, p); return p }
func zzNewIPFIX() *IPFIX     { p := NewIPFIX(); setMainProto(ppIPFIX, p); return p }
func zzNewNetflowV5() *NetflowV5 {
	p := NewNetflowV5()
	setMainProto(ppV5, p)
	return p
}
func zzNewNetflowV9() *NetflowV9 {
	p := NewNetflowV9()
	setMainProto(ppV9, p)
	return p
}

// pipePool: the pool of worker quit channels of a protocol
func pipePool(pr proto) chan chan struct{} {
	switch x := pr.(type) {
	case *IPFIX:
		return x.pool
	case *NetflowV9:
		return x.pool
	case *NetflowV5:
		return x.pool
	case *SFlow:
		return x.pool
	}
	return nil
}

func pipePort(p int) int { return []int{4739, 4729, 9996, 6343}[p] }

func pipeMQ(p int) chan []byte {
	switch p {
	case ppIPFIX:
		return ipfixMQCh
	case ppV9:
		return netflowV9MQCh
	case ppV5:
		return netflowV5MQCh
	}
	return sFlowMQCh
}

// pipeStatsQuiet reads the counters without scheduling points AND invisibly to the race detector (plain
// loads inside a norace function; exactly one thread runs at a time, so the values are consistent). A harness
// that looks at the counters before it sends the signal must not thereby give the shutdown path a
// happens-before edge from the receive loop: an atomic load here would hide every race between what the
// receive loop did before counting a datagram and what shutdown does after the signal (it hid the reverse of
// fix 0eaa8bd until this was noticed).
//
//go:norace
func pipeStatsQuiet(pr proto) (udp, decoded uint64) {
	switch x := pr.(type) {
	case *IPFIX:
		return x.stats.UDPCount, x.stats.DecodedCount
	case *NetflowV9:
		return x.stats.UDPCount, x.stats.DecodedCount
	case *NetflowV5:
		return x.stats.UDPCount, x.stats.DecodedCount
	case *SFlow:
		return x.stats.UDPCount, x.stats.DecodedCount
	}
	return 0, 0
}

func pipeStats(pr proto) (udp, decoded uint64) {
	switch x := pr.(type) {
	case *IPFIX:
		s := x.status()
		return s.UDPCount, s.DecodedCount
	case *NetflowV9:
		s := x.status()
		return s.UDPCount, s.DecodedCount
	case *NetflowV5:
		s := x.status()
		return s.UDPCount, s.DecodedCount
	case *SFlow:
		s := x.status()
		return s.UDPCount, s.DecodedCount
	}
	return 0, 0
}

// a datagram of the alphabet
type pdgram struct {
	name string
	ip   net.IP
	wire []byte
}

var colTime = regexp.MustCompile(`"ColTime":\d+`)

func normPayload(p int, b []byte) string {
	if p == ppSFlow {
		return string(colTime.ReplaceAll(b, []byte(`"ColTime":0`)))
	}
	return string(b)
}

// standalone: what processing this datagram on its own yields (accepted by the decoder?,
// payload published or ""), using the real decoder on a fresh cache loaded from cacheFile.
func standalone(p int, d pdgram, cacheFile string, filter []uint32) (accepted bool, payload string) {
	ip := append(net.IP{}, d.ip...)
	wire := append([]byte{}, d.wire...)
	switch p {
	case ppIPFIX:
		m, _ := ipfix.NewDecoder(ip, wire).Decode(ipfix.GetCache(cacheFile))
		if m == nil {
			return false, ""
		}
		if len(m.DataSets) > 0 {
			b, err := m.JSONMarshal(new(bytes.Buffer))
			if err == nil {
				return true, string(b)
			}
		}
		return true, ""
	case ppV9:
		m, _ := netflow9.NewDecoder(ip, wire).Decode(netflow9.GetCache(cacheFile))
		if m == nil {
			return false, ""
		}
		if m.DataSets != nil {
			b, err := m.JSONMarshal(new(bytes.Buffer))
			if err == nil {
				return true, string(b)
			}
		}
		return true, ""
	case ppV5:
		m, _ := netflow5.NewDecoder(ip, wire).Decode()
		if m == nil {
			return false, ""
		}
		if m.Flows != nil {
			b, err := m.JSONMarshal(new(bytes.Buffer))
			if err == nil {
				return true, string(b)
			}
		}
		return true, ""
	}
	dec := sflow.NewSFDecoder(bytes.NewReader(wire), filter)
	dg, err := dec.SFDecode()
	if err != nil || (len(dg.Counters) < 1 && len(dg.Samples) < 1) {
		return false, ""
	}
	b, err := json.Marshal(dg)
	if err != nil {
		return false, ""
	}
	return true, normPayload(ppSFlow, b)
}

// ---- datagram alphabets -----------------------------------------------------------------

var (
	expA = net.ParseIP("192.0.2.11")
	expB = net.ParseIP("198.51.100.22")
)

func flowTemplates(v9 bool) (map[uint16]ref.Template, ref.Template, ref.Template) {
	flowh.InstallExtra()
	by := flowh.ElemByType()
	f := func(t ref.AType, l uint16) ref.Field {
		if l == 0 {
			l = uint16(t.NaturalLen())
		}
		return ref.Field{ID: by[t], Len: l, Type: t}
	}
	t1 := ref.Template{ID: 256, Fields: []ref.Field{f(ref.TU32, 0), f(ref.TIPv4, 0), f(ref.TU16, 0)}}
	t2 := ref.Template{ID: 257, Fields: []ref.Field{f(ref.TString, 12), f(ref.TU64, 0), f(ref.TMac, 0)}}
	return map[uint16]ref.Template{256: t1, 257: t2}, t1, t2
}

func flowRec(t ref.Template, seed byte) ref.Record {
	var r ref.Record
	for i, f := range t.Fields {
		b := make([]byte, f.Len)
		for j := range b {
			b[j] = seed + byte(17*i+j)
			if f.Type == ref.TString {
				b[j] = 'a' + (seed+byte(i+j))%26
			}
		}
		r = append(r, ref.Value{Raw: b})
	}
	return r
}

// preloadCache writes a cache file holding both templates for both exporters.
func preloadCache(v9 bool) string {
	tpls, t1, t2 := flowTemplates(v9)
	_ = tpls
	c := flowh.NewCaches()
	for _, ip := range []net.IP{expA, expB} {
		m := &ref.Msg{V9: v9, Sets: []ref.Set{{Kind: ref.SetTemplates, Templates: []ref.Template{t1, t2}}}}
		flowh.Decode(v9, ip, m.Encode(nil), c)
	}
	p := filepath.Join(pipeTmpGet(), fmt.Sprintf("preload-%v.cache", v9))
	if v9 {
		c.N.Dump(p)
	} else {
		c.I.Dump(p)
	}
	// the file was saved by an EARLIER run: its entries are a day old (deterministically "not of this second",
	// whatever the wall clock does; the caches read the virtual clock in this build)
	if b, err := os.ReadFile(p); err == nil {
		re := regexp.MustCompile(`"Timestamp":(\d+)`)
		b = re.ReplaceAllFunc(b, func(m []byte) []byte {
			return []byte(fmt.Sprintf(`"Timestamp":%d`, venv.Epoch().Unix()-86400)) // a day before the virtual clock starts
		})
		os.WriteFile(p, b, 0644)
	}
	return p
}

func flowAlphabet(v9 bool) map[string]pdgram {
	tpls, t1, t2 := flowTemplates(v9)
	enc := func(sets ...ref.Set) []byte {
		return (&ref.Msg{V9: v9, Hdr: [5]uint32{uint32(len(sets)), 11, 22, 33, 44}, Sets: sets}).Encode(tpls)
	}
	ds := func(t ref.Template, seeds ...byte) ref.Set {
		var rs []ref.Record
		for _, s := range seeds {
			rs = append(rs, flowRec(t, s))
		}
		return ref.Set{Kind: ref.SetData, TemplateID: t.ID, Records: rs}
	}
	good := enc(ds(t1, 1))
	bad := append([]byte{}, good...)
	bad[1] = 7 // wrong version
	return map[string]pdgram{
		"dataA-long":    {"dataA-long", expA, enc(ds(t2, 10, 20, 30), ds(t1, 40))},
		"dataB-short":   {"dataB-short", expB, enc(ds(t1, 50))},
		"dataA-mid":     {"dataA-mid", expA, enc(ds(t1, 60, 70))},
		"template":      {"template", expA, enc(ref.Set{Kind: ref.SetTemplates, Templates: []ref.Template{{ID: 300, Fields: t1.Fields}}})},
		"unknown-tpl":   {"unknown-tpl", expB, enc(ref.Set{Kind: ref.SetRaw, RawID: 999, RawBody: []byte{1, 2, 3, 4, 5, 6, 7, 8}})},
		"wrong-version": {"wrong-version", expA, bad},
		"truncated":     {"truncated", expA, good[:len(good)-3]},
		// a decodable data set, a set of an unknown template, another decodable one: decodes with a (non-fatal) error AND yields records
		"data+unknown-set": {"data+unknown-set", expA, enc(ds(t1, 80), ref.Set{Kind: ref.SetRaw, RawID: 998, RawBody: []byte{9, 9, 9, 9}}, ds(t1, 81))},
		"inband-tpl":       {"inband-tpl", expB, enc(ref.Set{Kind: ref.SetTemplates, Templates: []ref.Template{{ID: 400, Fields: t1.Fields}}})},
		"inband-data":      {"inband-data", expB, (&ref.Msg{V9: v9, Hdr: [5]uint32{1, 1, 2, 3, 4}, Sets: []ref.Set{{Kind: ref.SetData, TemplateID: 400, Records: []ref.Record{flowRec(t1, 90)}}}}).Encode(map[uint16]ref.Template{400: {ID: 400, Fields: t1.Fields}})},
	}
}

// jumboFlow: one datagram of n records of template 256 (10 octets each)
func jumboFlow(v9 bool, n int) pdgram {
	tpls, t1, _ := flowTemplates(v9)
	var rs []ref.Record
	for i := 0; i < n; i++ {
		rs = append(rs, flowRec(t1, byte(5*i+1)))
	}
	w := (&ref.Msg{V9: v9, Hdr: [5]uint32{1, 11, 22, 77, 44}, Sets: []ref.Set{{Kind: ref.SetData, TemplateID: t1.ID, Records: rs}}}).Encode(tpls)
	return pdgram{fmt.Sprintf("jumbo-%d-records", n), expA, w}
}

// companionDatagrams: two IPFIX datagrams of about 3000 octets (300 / 290 records of template 256), longer than any other
// protocol's default receive buffer
func companionDatagrams() []pdgram {
	tpls, t1, _ := flowTemplates(false)
	var out []pdgram
	for k, n := range []int{300, 290} {
		var rs []ref.Record
		for i := 0; i < n; i++ {
			rs = append(rs, flowRec(t1, byte(3*i+k)))
		}
		w := (&ref.Msg{Hdr: [5]uint32{1, 11, 22, uint32(33 + k), 44}, Sets: []ref.Set{{Kind: ref.SetData, TemplateID: t1.ID, Records: rs}}}).Encode(tpls)
		out = append(out, pdgram{fmt.Sprintf("ipfix-%d-records", n), expA, w})
	}
	return out
}

func v5Alphabet() map[string]pdgram {
	mk := func(n int, seed byte) []byte {
		b := make([]byte, 24+48*n)
		for i := range b {
			b[i] = seed + byte(i*3)
		}
		b[0], b[1], b[2], b[3] = 0, 5, 0, byte(n)
		return b
	}
	good := mk(1, 9)
	bad := append([]byte{}, good...)
	bad[1] = 9
	cnt := append([]byte{}, good...)
	cnt[3] = 0
	return map[string]pdgram{
		"dataA-long": {"dataA-long", expA, mk(3, 1)}, "dataB-short": {"dataB-short", expB, mk(1, 2)}, "dataA-mid": {"dataA-mid", expA, mk(2, 3)},
		"wrong-version": {"wrong-version", expA, bad}, "truncated": {"truncated", expA, good[:40]}, "count-zero": {"count-zero", expB, cnt},
	}
}

func sflowAlphabet() map[string]pdgram {
	enc := func(agent []byte, ss ...ref.SFSample) []byte {
		return (&ref.SFDatagram{Agent: agent, SubID: 1, Seq: 2, Uptime: 3, Samples: ss}).Encode()
	}
	good := enc(sfh.Agent4, sfh.CounterSample(0, sfh.Rec("vlan", 0)))
	bad := append([]byte{}, good...)
	bad[3] = 4
	return map[string]pdgram{
		"dataA-long":    {"dataA-long", expA, enc(sfh.Agent4, sfh.FlowSample(0, sfh.Rec("raw", 0), sfh.Rec("sw", 0)), sfh.CounterSample(0, sfh.Rec("gen", 0)))},
		"dataB-short":   {"dataB-short", expB, enc(sfh.Agent6, sfh.CounterSample(0, sfh.Rec("proc", 0)))},
		"dataA-mid":     {"dataA-mid", expA, enc(sfh.Agent4, sfh.FlowSample(1, sfh.Rec("rt4", 0)))},
		"only-unknown":  {"only-unknown", expA, enc(sfh.Agent4, sfh.UnknownSample(5, 8))},
		"all-filtered":  {"all-filtered", expB, enc(sfh.Agent4, sfh.CounterSample(0, sfh.Rec("eth", 0)))},
		"wrong-version": {"wrong-version", expA, bad},
		"truncated":     {"truncated", expA, good[:len(good)-5]},
		// cut in the middle of the sampled header octets of a raw packet header record
		"truncated-in-header": {"truncated-in-header", expB, func() []byte {
			b := enc(sfh.Agent4, sfh.FlowSample(0, sfh.Rec("raw", 0))) // same frame shape as dataA-long: a stale tail would complete it
			return b[:len(b)-30]
		}()},
	}
}

func alphabet(p int) map[string]pdgram {
	switch p {
	case ppIPFIX:
		return flowAlphabet(false)
	case ppV9:
		return flowAlphabet(true)
	case ppV5:
		return v5Alphabet()
	}
	return sflowAlphabet()
}

// ---- one pipeline execution -------------------------------------------------------------

type pipeRun struct {
	proto   int
	workers int
	seq     []pdgram
	cache   string
	filter  []uint32
	inband  bool // expectation depends on the order in which template and data are processed
	mirror  bool
	paced   bool // deliver one datagram at a time, waiting for quiescence in between
	udpCap  int  // capacity of the receive queue (0 = 1000 as in production)
	// mirrorDead + qcap: the mirror target refuses every packet and all queues hold qcap entries
	mirrorDead bool
	qcap       int
	mqCap      int  // capacity of the outgoing queue (0 = 1000); nobody consumes it during a run
	fitBuffer  bool // max-udp-size is set to the length of the longest datagram of the run: it fills the receive buffer exactly
	// retire: after the first datagram has been processed, this many workers are retired the way the dynamic-worker
	// controller does it when the load has gone (it takes their quit channels out of the pool and closes them)
	retire int
	verbose bool // run with -verbose: what is logged about a datagram must not matter to the next one
	// companion: the collector runs all its protocols in ONE process. While the (sFlow) pipeline of the scenario runs, an
	// IPFIX pipeline with a larger max-udp-size (9000: jumbo frames) and no mirroring of its own runs beside it; after the
	// scenario's traffic it receives two datagrams of about 3000 octets, which must be published as their standalone decodes
	companion bool
}

type pipeObs struct {
	udp, decoded uint64
	published    []string
	mirrored     []string
}

var (
	mirrorLsn  *net.UDPConn
	mirrorPort int
)

// mirrorListener: one real UDP socket per worker process standing in for the third-party collector.
func mirrorListener() int {
	if mirrorLsn == nil {
		l, err := net.ListenUDP("udp4", &net.UDPAddr{IP: net.IPv4(127, 0, 0, 1), Port: 0})
		if err != nil {
			panic(err)
		}
		mirrorLsn, mirrorPort = l, l.LocalAddr().(*net.UDPAddr).Port
	}
	return mirrorPort
}

func drainMirror() []string {
	var out []string
	buf := make([]byte, 65536)
	for {
		n, from, ok := recvNow(mirrorLsn, buf) // loopback delivery is complete when the sender's sendto returns
		if !ok {
			return out
		}
		out = append(out, from.String()+"|"+string(buf[:n]))
	}
}

// runPipe is the body of thread 0: start the real run(), deliver, wait for quiescence, observe.
func runPipe(r *pipeRun, out *pipeObs, mu *realsync.Mutex) {
	cfg := pipeCfg{proto: r.proto, workers: r.workers, udpCap: 1000, mqCap: 1000, cache: r.cache, filter: r.filter}
	if r.udpCap > 0 {
		cfg.udpCap = r.udpCap
	}
	if r.mirror {
		cfg.mirror = mirrorListener()
		drainMirror()
	}
	cfg.mirrorDead, cfg.qcap, cfg.verbose = r.mirrorDead, r.qcap, r.verbose
	if r.fitBuffer {
		for _, d := range r.seq {
			if len(d.wire) > cfg.udpSize {
				cfg.udpSize = len(d.wire)
			}
		}
	}
	if r.mqCap > 0 {
		cfg.mqCap = r.mqCap
	}
	if r.qcap > 0 && r.udpCap == 0 {
		cfg.udpCap = r.qcap
	}
	pr := resetPipe(cfg)
	sched.GoNamed("run", pr.run)
	port := pipePort(r.proto)
	sched.WaitCond(func() bool { return venv.Conn(port) != nil }, "listening")
	if r.companion && r.proto != ppIPFIX {
		opts.IPFIXEnabled, opts.IPFIXWorkers, opts.IPFIXPort, opts.IPFIXTplCacheFile = true, 1, pipePort(ppIPFIX), preloadCache(false)
		opts.IPFIXUDPSize, opts.IPFIXMirrorAddr = 9000, ""
		ipfixUDPCh = make(chan IPFIXUDPMsg, 1000)
		ipfixMCh = make(chan IPFIXUDPMsg, 1000)
		ipfixMQCh = make(chan []byte, 1000)
		ipfixMirrorEnabled = false
		mCache = nil
		ipfixBuffer = &sync.Pool{New: func() interface{} { return make([]byte, opts.IPFIXUDPSize) }}
		sched.GoNamed("run (ipfix, beside)", NewIPFIX().run)
		sched.WaitCond(func() bool { return venv.Conn(pipePort(ppIPFIX)) != nil }, "ipfix listening")
	}
	conn := venv.Conn(port)
	for di, d := range r.seq {
		conn.Deliver(d.ip, 50000, d.wire)
		if r.paced {
			sched.Quiesce()
		}
		if di == 0 && r.retire > 0 {
			sched.Quiesce()
			pool := pipePool(pr)
			for k := 0; k < r.retire && len(pool) > 0; k++ {
				q := <-pool
				sched.ChanClose(q)
				close(q)
			}
		}
	}
	sched.Quiesce()
	if conn.Pending() != 0 {
		sched.Fail("pipeline:stalled", fmt.Sprintf("%d datagrams never read although every thread is idle", conn.Pending()))
	}
	if r.companion {
		cconn := venv.Conn(pipePort(ppIPFIX))
		var want []string
		for _, d := range companionDatagrams() {
			_, pay := standalone(ppIPFIX, d, opts.IPFIXTplCacheFile, nil)
			want = append(want, pay)
			cconn.Deliver(d.ip, 50001, d.wire)
			sched.Quiesce()
		}
		var got []string
		for len(ipfixMQCh) > 0 {
			got = append(got, string(<-ipfixMQCh))
		}
		sort.Strings(got)
		sort.Strings(want)
		if strings.Join(got, "\n") != strings.Join(want, "\n") {
			sched.Fail("pipeline:other-protocol-disturbed", fmt.Sprintf("the IPFIX pipeline running beside the %s one (max-udp-size 9000) published %d messages for 2 datagrams of %d octets; they differ from the standalone decodes (first published: %.160q)", ppNames[r.proto], len(got), len(companionDatagrams()[0].wire), strings.Join(got, " ")))
		}
	}
	// (not where the scenario itself wedges the mirror service: its dispatcher is then parked in a send by design,
	// and the decoding side is judged by the counters and the published messages)
	if n, who := sched.ParkedSenders(); n > 0 && !r.mirrorDead {
		sched.Fail("pipeline:blocked-in-a-send", fmt.Sprintf("every thread is idle and %d thread(s) (first: %q) are parked in a channel send that nobody will ever take", n, who))
	}
	var o pipeObs
	o.udp, o.decoded = pipeStats(pr)
	mq := pipeMQ(r.proto)
	for len(mq) > 0 {
		o.published = append(o.published, normPayload(r.proto, <-mq))
	}
	sort.Strings(o.published)
	if r.mirror {
		o.mirrored = drainMirror()
		sort.Strings(o.mirrored)
	}
	mu.Lock()
	*out = o
	mu.Unlock()
}

// expectation computed from the datagrams alone
type pipeExp struct {
	udp, decoded uint64
	payloads     []string // sorted multiset
}

func expectFor(r *pipeRun) pipeExp {
	var e pipeExp
	for _, d := range r.seq {
		e.udp++
		acc, pay := standalone(r.proto, d, r.cache, r.filter)
		if acc {
			e.decoded++
		}
		if pay != "" {
			e.payloads = append(e.payloads, pay)
		}
	}
	sort.Strings(e.payloads)
	return e
}

func checkPipe(r *pipeRun, e pipeExp, o pipeObs) (string, string) {
	name := ppNames[r.proto]
	if o.udp != e.udp {
		return name + ":count:received", fmt.Sprintf("UDPCount=%d after %d datagrams were delivered", o.udp, e.udp)
	}
	if r.mirror {
		// what reached the third party: a sub-multiset of the datagrams received (mirroring starts once
		// the dispatcher has switched it on), each byte-identical and from its exporter's address
		want := map[string]int{}
		for _, d := range r.seq {
			want[d.ip.String()+"|"+string(d.wire)]++
		}
		for _, m := range o.mirrored {
			if want[m] == 0 {
				return name + ":mirror:foreign-or-duplicate", fmt.Sprintf("the third party received a datagram that was not sent (or twice): %d octets from %s", len(m)-strings.Index(m, "|")-1, m[:strings.Index(m, "|")])
			}
			want[m]--
		}
		// ... and with a mirror that takes everything (queues of 1000 entries, a handful of datagrams) EVERY
		// received datagram is re-emitted, decodable or not
		if !r.mirrorDead {
			for _, d := range r.seq { // an IPv6 exporter cannot be mirrored towards an IPv4 target (the statement is about IPv4 exporters)
				if d.ip.To4() == nil {
					delete(want, d.ip.String()+"|"+string(d.wire))
				}
			}
			for k, n := range want {
				if n > 0 {
					return name + ":mirror:not-mirrored", fmt.Sprintf("a received datagram was not re-emitted to the third party: %d octets from %s (%d of %d datagrams arrived)", len(k)-strings.Index(k, "|")-1, k[:strings.Index(k, "|")], len(o.mirrored), len(r.seq))
				}
			}
		}
	}
	if !r.inband {
		if o.decoded != e.decoded {
			return name + ":count:decoded", fmt.Sprintf("DecodedCount=%d, %d of the %d datagrams decode", o.decoded, e.decoded, e.udp)
		}
		if r.mqCap > 0 && len(e.payloads) > r.mqCap {
			// the outgoing queue is full after mqCap messages (nobody consumes it): the rest may be dropped, but what
			// is in the queue must be messages of these datagrams, each at most once, and the queue must be full
			if len(o.published) != r.mqCap {
				return name + ":publish:number", fmt.Sprintf("%d messages in an outgoing queue of capacity %d after %d publishable datagrams", len(o.published), r.mqCap, len(e.payloads))
			}
			left := map[string]int{}
			for _, p := range e.payloads {
				left[p]++
			}
			for _, p := range o.published {
				if left[p] == 0 {
					return name + ":publish:content", "with a full outgoing queue: a published message is not (or not once) the standalone decode of a received datagram:\n got  " + p
				}
				left[p]--
			}
			return "", ""
		}
		if len(o.published) != len(e.payloads) {
			return name + ":publish:number", fmt.Sprintf("%d messages published, expected %d", len(o.published), len(e.payloads))
		}
		for i := range e.payloads {
			if o.published[i] != e.payloads[i] {
				return name + ":publish:content", fmt.Sprintf("published message differs from the standalone decode of its datagram:\n got  %s\n want %s", o.published[i], e.payloads[i])
			}
		}
		return "", ""
	}
	if r.mirror || !r.inband {
		return "", ""
	}
	// in-band template: the data datagram is published iff it was decoded after the template
	seen := map[string]int{}
	for _, p := range o.published {
		seen[p]++
	}
	for p, n := range seen {
		if n > 1 {
			return name + ":publish:duplicate", "a message was published twice: " + p
		}
	}
	return "", ""
}

// ---- spaces -----------------------------------------------------------------------------

type pipeItem struct {
	name  string
	run   pipeRun
	bound int
}

func seqOf(al map[string]pdgram, names ...string) []pdgram {
	var s []pdgram
	for _, n := range names {
		d, ok := al[n]
		if !ok {
			panic("no datagram " + n)
		}
		s = append(s, d)
	}
	return s
}

func explorePipe(c *mck.Ctx, it pipeItem, body func(out *pipeObs, mu *realsync.Mutex), check func(o pipeObs) (string, string), timerJumps bool, shard, nshards int) {
	var mu realsync.Mutex
	var obs pipeObs
	desc := func() interface{} {
		var ns []string
		for _, d := range it.run.seq {
			ns = append(ns, d.name)
		}
		return map[string]interface{}{"pipeline": ppNames[it.run.proto], "scenario": it.name, "workers": it.run.workers, "datagrams": ns, "deviation_bound": it.bound}
	}
	c.SetCase(desc)
	outcomes := map[string]int{}
	reported := map[string]bool{}
	n := 0
	_ = reported
	devHist := map[int]int{}
	onExec := func(r *sched.Result) {
		n++
		devHist[r.Deviations]++
		if n%64 == 0 {
			c.Heartbeat()
		}
		c.Transitions(uint64(r.Steps))
		c.States(1)
		mu.Lock()
		o := obs
		obs = pipeObs{}
		mu.Unlock()
		sig, msg := r.FailSig, r.FailMsg
		if sig == "" {
			sig, msg = check(o)
		}
		if rep := newRaceReport(); rep != "" {
			rs := raceSig(rep)
			if !reported[rs] {
				reported[rs] = true
				d := desc().(map[string]interface{})
				d["schedule"] = fmt.Sprint(r.Choices)
				if len(rep) > 3500 {
					rep = rep[:3500]
				}
				d["race_report"] = rep
				c.Violation(ppNames[it.run.proto]+":"+rs, "data race reported in an explored schedule", d)
			}
		}
		if sig != "" && !reported[sig] {
			reported[sig] = true
			d := desc().(map[string]interface{})
			d["schedule"] = fmt.Sprint(r.Choices)
			d["virtual_ns"] = r.VirtualNs
			c.Violation(sig, msg, d)
		}
		outcomes[fmt.Sprintf("udp=%d dec=%d pub=%d mirrored=%d %s", o.udp, o.decoded, len(o.published), len(o.mirrored), sig)]++
	}
	bodyFn := func() { body(&obs, &mu) }
	// determinism gate. The race detector reports a racing pair of stacks once per process, so what it
	// says during the gate is kept and reported with the schedule that raised it.
	var first [][]int
	var firstObs []string
	type gateRace struct {
		rep      string
		schedule []int
	}
	var gateRaces []gateRace
	sched.Explore(sched.Config{Bound: it.bound, MaxExec: 8, TimerJumps: timerJumps, OnExec: func(r *sched.Result) {
		mu.Lock()
		o := obs
		mu.Unlock()
		first = append(first, r.Choices)
		firstObs = append(firstObs, fmt.Sprint(o, r.FailSig, r.Steps))
		if rep := newRaceReport(); rep != "" {
			gateRaces = append(gateRaces, gateRace{rep, r.Choices})
		}
	}}, bodyFn)
	for i, ch := range first {
		sched.Explore(sched.Config{Bound: 0, Prefix: ch, MaxExec: 1, TimerJumps: timerJumps, OnExec: func(r *sched.Result) {
			mu.Lock()
			o := obs
			mu.Unlock()
			if g := fmt.Sprint(o, r.FailSig, r.Steps); g != firstObs[i] {
				fmt.Fprintf(os.Stderr, "determinism gate failed (%s): schedule %v observed %q then %q\n", it.name, ch, firstObs[i], g)
				os.Exit(3)
			}
		}}, bodyFn)
	}
	if rep := newRaceReport(); rep != "" {
		gateRaces = append(gateRaces, gateRace{rep, nil})
	}
	for _, g := range gateRaces {
		for _, one := range strings.Split(g.rep, "==================\nWARNING: DATA RACE") {
			if !strings.Contains(one, "by goroutine") {
				continue
			}
			rs := raceSig("WARNING: DATA RACE" + one)
			if !reported[rs] {
				reported[rs] = true
				d := desc().(map[string]interface{})
				d["schedule"] = fmt.Sprint(g.schedule)
				if len(one) > 3500 {
					one = one[:3500]
				}
				d["race_report"] = "WARNING: DATA RACE" + one
				c.Violation(ppNames[it.run.proto]+":"+rs, "data race reported in an explored schedule", d)
			}
		}
	}
	if os.Getenv("VERIF_TRACE") != "" {
		sched.Explore(sched.Config{Bound: 0, MaxExec: 1, KeepTrace: true, TimerJumps: timerJumps, OnExec: func(r *sched.Result) {
			for _, l := range r.Trace {
				fmt.Fprintln(os.Stderr, l)
			}
		}}, bodyFn)
	}
	maxExec := 0
	fmt.Sscan(os.Getenv("VERIF_MAXEXEC"), &maxExec)
	// The schedule tree is split by its first deviation: the default execution gives the list of
	// decisions; every (decision p, alternative a) is the root of the subtree of all executions whose
	// first deviation is a at p. Roots are dealt round-robin to the nshards work units of this
	// scenario; unit 0 also owns the default execution. The union is exactly the bounded tree.
	var st sched.Stats
	st.Complete = true
	var rootAlts []int
	sched.Explore(sched.Config{Bound: 0, MaxExec: 1, TimerJumps: timerJumps, OnExec: func(r *sched.Result) {
		rootAlts = append([]int{}, r.Alts...)
		if shard == 0 {
			onExec(r)
		} else {
			mu.Lock()
			obs = pipeObs{}
			mu.Unlock()
			check(pipeObs{})
			newRaceReport()
		}
	}}, bodyFn)
	if shard == 0 {
		st.Executions++
	}
	st.MaxDepth = len(rootAlts)
	k := 0
	for p := 0; p < len(rootAlts) && it.bound >= 1; p++ {
		for a := 1; a < rootAlts[p]; a++ {
			k++
			if k%nshards != shard {
				continue
			}
			prefix := make([]int, p+1)
			prefix[p] = a
			s2 := sched.Explore(sched.Config{Bound: it.bound, Prefix: prefix, TimerJumps: timerJumps, OnExec: onExec, MaxExec: maxExec}, bodyFn)
			st.Executions += s2.Executions
			if s2.MaxDepth > st.MaxDepth {
				st.MaxDepth = s2.MaxDepth
			}
			if !s2.Complete {
				st.Complete = false
			}
		}
	}
	c.Count("subtree_roots_total", uint64(k)/uint64(nshards))
	c.Count("executions", uint64(st.Executions))
	c.Depth(uint64(st.MaxDepth))
	if !st.Complete {
		c.Incomplete()
	}
	for o := range outcomes {
		c.Nontrivial(mck.HashStr(ppNames[it.run.proto], it.name, o))
	}
	c.Count("distinct_outcomes", uint64(len(outcomes)))
	for d, k := range devHist {
		c.Count(fmt.Sprintf("executions_with_%d_deviations", d), uint64(k))
	}
	c.Outcome(fmt.Sprintf("%s %s", ppNames[it.run.proto], it.name))
	c.Sample(func() interface{} {
		d := desc().(map[string]interface{})
		d["executions"] = st.Executions
		d["max_decisions"] = st.MaxDepth
		var os []string
		for o, k := range outcomes {
			os = append(os, fmt.Sprintf("%s x%d", o, k))
		}
		sort.Strings(os)
		d["outcomes"] = os
		return d
	})
}

func pipeSpace(items func(tier string) []pipeItem, K int) func(string) mck.Space {
	return func(tier string) mck.Space {
		its := items(tier)
		if v := os.Getenv("VERIF_UNITS"); v != "" {
			fmt.Sscan(v, &K)
		}
		return mck.FuncSpace{N: uint64(len(its) * K), F: func(idx uint64, c *mck.Ctx) {
			it := its[idx/uint64(K)]
			shard := int(idx % uint64(K))
			exp := expectFor(&it.run)
			explorePipe(c, it, func(out *pipeObs, mu *realsync.Mutex) { r := it.run; runPipe(&r, out, mu) },
				func(o pipeObs) (string, string) { return checkPipe(&it.run, exp, o) }, false, shard, K)
		}}
	}
}

// C12: mixed-size datagrams from two exporters, 1 and 2 workers, pool recycling explored.
func c12Items(tier string) []pipeItem {
	var out []pipeItem
	b := 2
	if tier == "thorough" {
		b = 3
	}
	for p := 0; p < 4; p++ {
		al := alphabet(p)
		cache := ""
		if p == ppIPFIX || p == ppV9 {
			cache = preloadCache(p == ppV9)
		}
		orders := [][]string{{"dataA-long", "dataB-short", "dataA-mid"}, {"dataB-short", "dataA-long", "dataA-mid"}, {"dataA-mid", "dataA-long", "dataB-short"},
			{"wrong-version", "dataA-long", "dataB-short"}, {"dataA-mid", "truncated", "dataA-long", "dataB-short"}}
		if p == ppSFlow {
			orders = append(orders, []string{"dataA-long", "truncated-in-header", "dataA-mid"})
		}
		for wi, w := range []int{1, 2} {
			for oi, o := range orders {
				if tier != "thorough" && wi == 1 && oi > 0 && oi != 3 && oi != 5 {
					continue
				}
				out = append(out, pipeItem{fmt.Sprintf("mixed-sizes order%d", oi), pipeRun{proto: p, workers: w, seq: seqOf(al, o...), cache: cache}, b})
			}
		}
		out = append(out, pipeItem{"paced traffic short-mid-long", pipeRun{proto: p, workers: 1, seq: seqOf(al, "dataB-short", "dataA-mid", "dataA-long", "dataA-mid"), cache: cache, paced: true}, b})
		if p == ppIPFIX || p == ppV9 {
			out = append(out, pipeItem{"in-band template", pipeRun{proto: p, workers: 2, seq: seqOf(al, "inband-tpl", "inband-data", "dataA-mid"), cache: cache, inband: true}, b})
		}
		if p == ppIPFIX || p == ppV9 {
			// a datagram of 12 000 octets (jumbo frames / fragments; max-udp-size raised to fit) whose message is far larger
			// than any other - about 80 KB of JSON - and ordinary ones behind it on the same worker: whatever the worker
			// keeps between messages (its encode buffer) must serve the next message as a fresh one would
			out = append(out, pipeItem{"a 12 000-octet datagram, then ordinary ones, one worker", pipeRun{proto: p, workers: 1, seq: append([]pdgram{jumboFlow(p == ppV9, 1200)}, seqOf(al, "dataA-mid", "dataB-short")...), cache: cache, fitBuffer: true, paced: true}, 0})
		}
	}
	return out
}

// C01 (concurrent part): "never terminates the process" with the collector's real concurrency - two
// workers per protocol on well-formed and malformed datagrams of two exporters, templates loaded from a
// cache file (entries older than "now") and announced in-band.
func c01Items(tier string) []pipeItem {
	b := 1
	if tier == "thorough" {
		b = 2
	}
	var out []pipeItem
	for p := 0; p < 4; p++ {
		al := alphabet(p)
		cache := ""
		if p == ppIPFIX || p == ppV9 {
			cache = preloadCache(p == ppV9)
		}
		out = append(out, pipeItem{"two workers, good and malformed", pipeRun{proto: p, workers: 2, seq: seqOf(al, "dataA-mid", "truncated", "dataA-long", "wrong-version"), cache: cache}, b})
		// the same with -verbose (a legal setting that switches on code which otherwise never runs: what the workers log
		// about the datagrams they drop), one worker: every malformed class, each followed by a good datagram
		out = append(out, pipeItem{"verbose logging, one worker, malformed between good", pipeRun{proto: p, workers: 1, seq: seqOf(al, "wrong-version", "dataA-mid", "truncated", "dataB-short"), cache: cache, verbose: true}, 0})
		if p == ppIPFIX || p == ppV9 {
			out = append(out, pipeItem{"two workers, cached templates, unknown template, in-band template", pipeRun{proto: p, workers: 2, seq: seqOf(al, "dataA-mid", "dataA-long", "unknown-tpl", "inband-tpl", "inband-data"), cache: cache, inband: true}, b})
		}
	}
	return out
}

// C18 (concurrent part): the configured filter list is ONE slice shared by all sFlow workers - two workers
// on datagrams whose samples hit different entries of a three-entry filter.
func c18Items(tier string) []pipeItem {
	b := 1
	if tier == "thorough" {
		b = 3
	}
	al := alphabet(ppSFlow)
	var out []pipeItem
	for _, f := range [][]uint32{{7, 2, 9}, {9, 7, 1}, {2, 7, 1}} {
		out = append(out, pipeItem{fmt.Sprintf("two workers, filter %v", f), pipeRun{proto: ppSFlow, workers: 2, seq: seqOf(al, "dataA-long", "dataB-short", "dataA-mid"), filter: f}, b})
	}
	return out
}

// C08 (concurrent part): the v5 decode + JSON rendering run by two workers on datagrams with different
// addresses - every document published must still be the one of its own datagram.
func c08Items(tier string) []pipeItem {
	b := 1
	if tier == "thorough" {
		b = 3
	}
	al := alphabet(ppV5)
	var out []pipeItem
	for _, o := range [][]string{{"dataA-long", "dataB-short", "dataA-mid"}, {"dataB-short", "dataA-mid", "dataA-long"}} {
		out = append(out, pipeItem{"v5 two workers " + strings.Join(o, ","), pipeRun{proto: ppV5, workers: 2, seq: seqOf(al, o...)}, b})
	}
	// a stray datagram that is not NetFlow v5 (or cut short) first: whatever the worker does with its buffer on that path
	// must not reach the datagrams behind it
	for _, w := range []int{1, 2} {
		out = append(out, pipeItem{fmt.Sprintf("v5 %d worker(s), a stray non-v5 datagram and a truncated one before the burst", w), pipeRun{proto: ppV5, workers: w, seq: seqOf(al, "wrong-version", "dataA-long", "truncated", "dataB-short", "dataA-mid")}, b})
	}
	return out
}

// C13: every sequence of length <=3 (quick: <=2 exhaustively + chosen triples) over the datagram classes.
func c13Items(tier string) []pipeItem {
	var out []pipeItem
	for p := 0; p < 4; p++ {
		al := alphabet(p)
		cache := ""
		var filter []uint32
		classes := []string{"dataB-short", "dataA-mid", "wrong-version", "truncated"}
		switch p {
		case ppIPFIX, ppV9:
			cache = preloadCache(p == ppV9)
			classes = append(classes, "template", "unknown-tpl")
		case ppV5:
			classes = append(classes, "count-zero")
		case ppSFlow:
			classes = append(classes, "only-unknown", "all-filtered")
			filter = nil
		}
		var seqs [][]string
		for _, a := range classes {
			seqs = append(seqs, []string{a})
			for _, b := range classes {
				seqs = append(seqs, []string{a, b})
				if tier == "thorough" {
					for _, c := range classes {
						seqs = append(seqs, []string{a, b, c})
					}
				}
			}
		}
		if tier != "thorough" {
			seqs = append(seqs, []string{"dataB-short", classes[1], "dataB-short"}, []string{classes[2], "dataB-short", classes[len(classes)-1]})
		}
		for _, s := range seqs {
			for _, w := range []int{1, 2} {
				b := 1
				if len(s) == 1 || tier == "thorough" {
					b = 2
				}
				out = append(out, pipeItem{strings.Join(s, ","), pipeRun{proto: p, workers: w, seq: seqOf(al, s...), cache: cache, filter: filter}, b})
			}
		}
		if p == ppIPFIX || p == ppV9 {
			// a datagram that is decoded with a non-fatal error and still yields records: counted as decoded, published once
			for _, sq := range [][]string{{"data+unknown-set"}, {"data+unknown-set", "dataB-short"}, {"unknown-tpl", "data+unknown-set"}} {
				for _, w := range []int{1, 2} {
					out = append(out, pipeItem{strings.Join(sq, ","), pipeRun{proto: p, workers: w, seq: seqOf(al, sq...), cache: cache}, 1})
				}
			}
		}
		// scale-down: one of two workers is retired after the first datagram; every later datagram is still counted,
		// decoded and published once (by the worker that stays)
		out = append(out, pipeItem{"one of two workers retired after the first datagram: dataB-short,dataA-mid,dataA-long", pipeRun{proto: p, workers: 2, seq: seqOf(al, "dataB-short", "dataA-mid", "dataA-long"), cache: cache, filter: filter, retire: 1}, 1})
		// a datagram that fills the receive buffer EXACTLY (its length = <protocol>-max-udp-size) is a complete datagram
		out = append(out, pipeItem{"receive buffer exactly as large as the longest datagram: dataB-short,dataA-long,dataA-mid", pipeRun{proto: p, workers: 1, seq: seqOf(al, "dataB-short", "dataA-long", "dataA-mid"), cache: cache, filter: filter, fitBuffer: true}, 1})
		// the OUTGOING queue holds one message and nobody takes it: the workers must drop, not block, and go on counting
		out = append(out, pipeItem{"outgoing queue of 1: dataB-short,dataA-mid,dataB-short", pipeRun{proto: p, workers: 2, seq: seqOf(al, "dataB-short", "dataA-mid", "dataB-short"), cache: cache, filter: filter, mqCap: 1}, 1})
		// the receive queue holds one datagram: the receive loop has to wait for the workers
		out = append(out, pipeItem{"receive queue of 1: dataB-short,dataA-mid,dataB-short", pipeRun{proto: p, workers: 1, seq: seqOf(al, "dataB-short", "dataA-mid", "dataB-short"), cache: cache, filter: filter, udpCap: 1}, 2})
		if p == ppSFlow { // the type filter configured: a datagram whose samples are all filtered
			out = append(out, pipeItem{"filter[2]: all-filtered,dataB-short", pipeRun{proto: p, workers: 2, seq: seqOf(al, "all-filtered", "dataB-short"), filter: []uint32{2}}, 2})
		}
	}
	return out
}

// ---- C15: SIGTERM stops the collector cleanly and templates survive the restart ----------

type shutItem struct {
	name     string
	proto    int
	workers  int
	udpCap   int
	inflight []string // datagrams delivered around the signal
	after    int      // how many of them are delivered AFTER the signal
	bound    int
	shrink   bool  // second cycle: the acknowledged template is re-announced with fewer fields (the dump shrinks)
	waitRead bool  // send the signal only once the receive loop has read (counted) the datagrams delivered before it
	once     bool  // one start-stop cycle instead of two
	downtime int64 // virtual ns between the exit and the restart (the collector is down for that long)
	// early: between the two cycles the collector is started once more and gets the signal AT ONCE - as soon as
	// main has installed its handler, without waiting for the listeners, without any traffic or look at the counters
	early bool
	// realMain: the repository's own main() runs (all four protocols constructed, the ones not under test disabled)
	// instead of the replica of its orchestration; again: a second signal 0.3 virtual seconds after the first
	realMain bool
	again    bool
}

// mainReplica is main()'s orchestration (vflow.go: start every protocol, wait for the signal,
// shut every protocol down, wait) with the options already in place. GetOptions (flag parsing,
// PID file, kill -0) cannot be re-run per execution, so these lines are replicated here; the
// run() and shutdown() it calls are the real ones.
func mainReplica(protos []proto) {
	var wg sync.WaitGroup
	signalCh := make(chan os.Signal, 1)
	venv.SignalNotify(signalCh)
	for _, p := range protos {
		wg.Add(1)
		p := p
		sched.Go(func() {
			defer wg.Done()
			p.run()
		})
	}
	sched.ChanRecv(signalCh)
	<-signalCh
	for _, p := range protos {
		wg.Add(1)
		p := p
		sched.Go(func() {
			defer wg.Done()
			p.shutdown()
		})
	}
	wg.Wait()
}

type shutObs struct {
	lostEarly  string // a template received before the signal that the cache file lacks (threads held up < 1 s in total)
	phase      string
	exitNs     int64
	fileErr    string
	hasT1      bool
	restartPub []string
}

// template ids announced by the datagrams of the alphabet
var tplOf = map[string]uint16{"template": 300, "inband-tpl": 400, "template-short": 300}

// settingsOf renders every yaml-tagged setting of the options in force.
func settingsOf(o *Options) string {
	v := reflect.ValueOf(o).Elem()
	var sb strings.Builder
	for i := 0; i < v.NumField(); i++ {
		if tag := v.Type().Field(i).Tag.Get("yaml"); tag != "" {
			fmt.Fprintf(&sb, "%s=%v;", strings.Split(tag, ",")[0], v.Field(i).Interface())
		}
	}
	return sb.String()
}

func diffSettings(a, b string) string {
	x, y := strings.Split(a, ";"), strings.Split(b, ";")
	var d []string
	for i := range x {
		if i < len(y) && x[i] != y[i] {
			d = append(d, x[i]+" -> "+y[i])
		}
	}
	return strings.Join(d, ", ")
}

func sendSignal() {
	sched.Point("signal")
	venv.SignalChan() <- os.Interrupt
}

// sendSignalAgain: the same signal once more while the collector is stopping. The runtime delivers to the
// registered channel without blocking; with no channel registered any more the default action applies.
func sendSignalAgain() {
	sched.Point("second signal")
	ch := venv.SignalChan()
	if ch == nil {
		sched.Fail("signal:default-action", "a second signal while the collector is stopping finds no handler registered: the default action terminates the process before the templates are saved")
		return
	}
	select {
	case ch <- os.Interrupt:
	default:
	}
}

func runShutdown(it shutItem, al map[string]pdgram, cacheFile string, out *shutObs, mu *realsync.Mutex) {
	os.Remove(cacheFile)
	var o shutObs
	set := func() { mu.Lock(); *out = o; mu.Unlock() }
	for cycle := 0; cycle < 2 && !(it.once && cycle == 1); cycle++ {
		o.phase = fmt.Sprintf("cycle %d: start", cycle)
		set()
		pr := resetPipe(pipeCfg{proto: it.proto, workers: it.workers, udpCap: it.udpCap, mqCap: 1000, cache: cacheFile})
		var mainTid int
		if it.realMain {
			setMainProto(it.proto, nil)
			mainTid = sched.GoNamed("main", vflowMain)
			sched.WaitCond(func() bool { return getMainProto(it.proto) != nil }, "main() has constructed the protocols")
			pr = getMainProto(it.proto)
		} else {
			mainTid = sched.GoNamed("main", func() { mainReplica([]proto{pr}) })
		}
		port := pipePort(it.proto)
		sched.WaitCond(func() bool { return venv.Conn(port) != nil && venv.SignalChan() != nil }, "listening")
		conn := venv.Conn(port)
		if it.realMain && venv.SignalRegistered(syscall.SIGHUP) {
			// the collector handles SIGHUP (the unchanged tree does not: it would die of it): whatever it does on a HUP,
			// the settings in force must still be the ones the sources gave at start-up - a configuration file named on the
			// command line sets other values for keys the "command line" (the options the harness started it with) has set
			cf := filepath.Join(pipeTmpGet(), fmt.Sprintf("hup-%d.conf", os.Getpid()))
			os.WriteFile(cf, []byte("verbose: true\nipfix-workers: 7\nsflow-workers: 7\nnetflow5-workers: 7\nnetflow9-workers: 7\nipfix-tpl-cache-file: /nonexistent/from-the-file\nnetflow9-tpl-cache-file: /nonexistent/from-the-file\nlog-file: \"\"\n"), 0644)
			saved := os.Args
			os.Args = []string{"vflow", "-config", cf}
			before := settingsOf(opts)
			sched.Point("SIGHUP")
			venv.SignalChan() <- syscall.SIGHUP
			sched.Quiesce()
			after := settingsOf(opts)
			os.Args = saved
			os.Remove(cf)
			if before != after {
				o.fileErr = "after a SIGHUP the settings in force are no longer the ones given at start-up (command line over file): " + diffSettings(before, after)
			}
		}
		if cycle == 0 {
			if it.proto == ppIPFIX || it.proto == ppV9 {
				// T1 is acknowledged: delivered and fully processed before anything else happens
				conn.Deliver(al["template"].ip, 50000, al["template"].wire)
				sched.Quiesce()
				if d, ok := al["opt-template"]; ok {
					conn.Deliver(d.ip, 50000, d.wire)
					sched.Quiesce()
				}
			}
		} else if it.proto == ppIPFIX || it.proto == ppV9 {
			// after the restart: data for T1 must decode at once, without the template being resent
			conn.Deliver(al["t1-data"].ip, 50000, al["t1-data"].wire)
			sched.Quiesce()
			mq := pipeMQ(it.proto)
			for len(mq) > 0 {
				o.restartPub = append(o.restartPub, string(<-mq))
			}
			if it.shrink {
				conn.Deliver(al["template-short"].ip, 50000, al["template-short"].wire)
				sched.Quiesce()
			}
		}
		o.phase = fmt.Sprintf("cycle %d: traffic+signal", cycle)
		set()
		n := len(it.inflight)
		// template datagrams the receive loop had READ (counted in UDPCount) before the signal was sent:
		// datagrams are read in order, so these are the first <count> of this cycle
		var before []string
		base, _ := pipeStatsQuiet(pr)
		signal := func(delivered int) {
			if it.waitRead {
				want := base + uint64(delivered)
				sched.WaitCond(func() bool { g, _ := pipeStatsQuiet(pr); return g >= want }, "datagrams read")
			}
			got, _ := pipeStatsQuiet(pr)
			for k := 0; k < delivered && k < int(got-base); k++ {
				if tplOf[it.inflight[k]] != 0 {
					before = append(before, it.inflight[k])
				}
			}
			sendSignal()
		}
		for i, name := range it.inflight {
			if i == n-it.after {
				signal(i)
			}
			conn.Deliver(al[name].ip, 50000, al[name].wire)
		}
		if it.after == 0 {
			signal(n)
		}
		if it.again {
			sched.Sleep(3e8)
			sendSignalAgain()
		}
		t0 := sched.Now()
		o.phase = fmt.Sprintf("cycle %d: waiting for exit", cycle)
		set()
		sched.Join(mainTid)
		if d := sched.Now() - t0; d > o.exitNs {
			o.exitNs = d
		}
		// the process is gone now: let the goroutines that main() does not wait for (workers
		// draining the closed queue) run out before the "new process" re-creates the globals
		sched.Quiesce()
		sched.ProcessBoundary()
		if it.downtime > 0 && cycle == 0 {
			sched.Sleep(it.downtime)
		}
		if it.proto == ppIPFIX || it.proto == ppV9 {
			// the file left behind must load and hold T1
			k := al["template"]
			nfields := 0
			if _, err := os.Stat(cacheFile); err != nil {
				o.fileErr = "no cache file written: " + err.Error()
			} else if it.proto == ppIPFIX {
				var tr ipfix.TemplateRecord
				tr, o.hasT1 = ipfix.VerifRetrieve(ipfix.GetCache(cacheFile), 300, append(net.IP{}, k.ip...))
				nfields = len(tr.FieldSpecifiers)
			} else {
				var tr netflow9.TemplateRecord
				tr, o.hasT1 = netflow9.VerifRetrieve(netflow9.GetCache(cacheFile), 300, append(net.IP{}, k.ip...))
				nfields = len(tr.FieldSpecifiers)
			}
			if !o.hasT1 && o.fileErr == "" {
				o.fileErr = fmt.Sprintf("cycle %d: cache file does not hold the template acknowledged before the signal", cycle)
			}
			// the exporter re-announced T1 with ONE field in this run (acknowledged): that is the definition the file must hold
			if it.shrink && cycle == 1 && o.hasT1 && nfields != 1 && o.fileErr == "" {
				o.fileErr = fmt.Sprintf("cycle 1: the template was re-announced (1 field) and acknowledged before the signal, the cache file still holds the superseded definition (%d fields)", nfields)
			}
			// templates received before the signal: the collector had a full second to decode them;
			// unless runnable threads were held up for that long in total (timers fired early) they must be in the file
			if sched.JumpedNs() < 1e9 && o.fileErr == "" {
				for _, name := range before {
					var ok bool
					if it.proto == ppIPFIX {
						_, ok = ipfix.VerifRetrieve(ipfix.GetCache(cacheFile), tplOf[name], append(net.IP{}, al[name].ip...))
					} else {
						_, ok = netflow9.VerifRetrieve(netflow9.GetCache(cacheFile), tplOf[name], append(net.IP{}, al[name].ip...))
					}
					if !ok && o.lostEarly == "" {
						o.lostEarly = fmt.Sprintf("cycle %d: template %d of datagram %q had been received (counted) before the signal but is not in the cache file", cycle, tplOf[name], name)
					}
				}
			}
		}
		if it.early && cycle == 0 {
			o.phase = "start-up signal: start"
			set()
			pr := resetPipe(pipeCfg{proto: it.proto, workers: it.workers, udpCap: it.udpCap, mqCap: 1000, cache: cacheFile})
			mainTid := sched.GoNamed("main", func() { mainReplica([]proto{pr}) })
			sched.WaitCond(func() bool { return venv.SignalChan() != nil }, "signal handler installed")
			sendSignal()
			t0 := sched.Now()
			o.phase = "start-up signal: waiting for exit"
			set()
			sched.Join(mainTid)
			if d := sched.Now() - t0; d > o.exitNs {
				o.exitNs = d
			}
			sched.Quiesce()
			sched.ProcessBoundary()
			if (it.proto == ppIPFIX || it.proto == ppV9) && o.fileErr == "" {
				k := al["template"]
				ok := false
				if it.proto == ppIPFIX {
					_, ok = ipfix.VerifRetrieve(ipfix.GetCache(cacheFile), 300, append(net.IP{}, k.ip...))
				} else {
					_, ok = netflow9.VerifRetrieve(netflow9.GetCache(cacheFile), 300, append(net.IP{}, k.ip...))
				}
				if !ok {
					o.fileErr = "a start that was stopped at once by a signal left a cache file without the template saved by the run before"
				}
			}
		}
		o.phase = fmt.Sprintf("cycle %d: done", cycle)
		set()
	}
}

// c15LockItems run in the build whose template-cache lock operations are scheduling points too: the
// dump at shutdown against a worker that has taken a template datagram off the queue but not stored it yet.
func c15LockItems(tier string) []shutItem {
	var out []shutItem
	for _, p := range []int{ppIPFIX, ppV9} {
		out = append(out, shutItem{"template read right before the signal", p, 1, 1000, []string{"dataB-short", "inband-tpl"}, 0, 2, false, true, true, 0, false, false, false})
		// the collector stays down for two hours (the cache code reads the virtual clock in this build)
		out = append(out, shutItem{"restart after two hours of downtime", p, 1, 1000, []string{"dataB-short"}, 0, 1, false, false, false, 7200e9, false, false, false})
		if tier == "thorough" {
			out = append(out, shutItem{"restart after 400 days of downtime", p, 2, 1000, []string{"dataB-short"}, 0, 1, false, false, false, 400 * 86400e9, false, false, false})
			out = append(out, shutItem{"template read right before the signal", p, 1, 1000, []string{"dataB-short", "inband-tpl"}, 0, 2, false, true, false, 0, false, false, false})
			out = append(out, shutItem{"template read right before the signal", p, 2, 1000, []string{"dataB-short", "inband-tpl"}, 0, 2, false, true, false, 0, false, false, false})
			out = append(out, shutItem{"template read right before the signal", p, 1, 1, []string{"inband-tpl", "dataB-short"}, 0, 2, false, true, false, 0, false, false, false})
			out = append(out, shutItem{"template burst around the signal", p, 1, 1000, []string{"inband-tpl", "inband-data", "template", "dataB-short"}, 2, 1, false, true, false, 0, false, false, false})
		}
	}
	return out
}

func c15Items(tier string) []shutItem {
	var out []shutItem
	for _, p := range []int{ppIPFIX, ppV9, ppV5, ppSFlow} {
		flow := p == ppIPFIX || p == ppV9
		if tier == "thorough" { // everything the quick tier has, plus deeper bounds / more workers / the queue of one entry
			F := false
			out = append(out, shutItem{"idle", p, 2, 1000, nil, 0, 2, F, F, F, 0, F, F, F})
			out = append(out, shutItem{"idle", p, 1, 1, nil, 0, 2, F, F, F, 0, F, F, F})
			out = append(out, shutItem{"data before the signal", p, 2, 1000, []string{"dataB-short", "dataA-mid"}, 0, 2, F, F, F, 0, F, F, F})
			out = append(out, shutItem{"data before the signal", p, 1, 1, []string{"dataB-short", "dataA-mid"}, 0, 2, F, F, F, 0, F, F, F})
			out = append(out, shutItem{"data around the signal", p, 1, 1, []string{"dataB-short", "dataA-mid", "dataB-short"}, 2, 2, F, F, F, 0, F, F, F})
			out = append(out, shutItem{"data around the signal", p, 2, 1000, []string{"dataB-short", "dataA-mid", "dataB-short"}, 2, 2, F, F, F, 0, F, F, F})
			if flow {
				out = append(out, shutItem{"template burst around the signal", p, 2, 1000, []string{"inband-tpl", "inband-data", "template", "dataB-short"}, 2, 2, F, F, F, 0, F, F, F})
				out = append(out, shutItem{"template burst around the signal", p, 1, 1, []string{"inband-tpl", "inband-data", "template", "dataB-short"}, 2, 1, F, F, F, 0, F, F, F})
			}
			out = append(out, shutItem{"signal during start-up between two runs", p, 2, 1000, nil, 0, 2, F, F, F, 0, true, F, F})
			out = append(out, shutItem{"real main(): data around the signal, two workers", p, 2, 1000, []string{"dataB-short", "dataA-mid"}, 1, 1, F, F, F, 0, F, true, F})
		}
		out = append(out, shutItem{"idle", p, 1, 1000, nil, 0, 2, false, false, false, 0, false, false, false})
		b := 1
		if p == ppIPFIX || p == ppSFlow {
			b = 2
		}
		out = append(out, shutItem{"data before the signal", p, 1, 1000, []string{"dataB-short", "dataA-mid"}, 0, b, false, false, false, 0, false, false, false})
		out = append(out, shutItem{"data around the signal", p, 1, 1, []string{"dataB-short", "dataA-mid", "dataB-short"}, 2, 1, false, false, false, 0, false, false, false})
		out = append(out, shutItem{"data around the signal", p, 2, 1000, []string{"dataB-short", "dataA-mid"}, 1, 1, false, false, false, 0, false, false, false})
		if flow {
			out = append(out, shutItem{"template burst around the signal", p, 2, 1000, []string{"inband-tpl", "inband-data", "template", "dataB-short"}, 2, 1, false, false, false, 0, false, false, false})
			out = append(out, shutItem{"template re-announced shorter before the second stop", p, 1, 1000, nil, 0, 1, true, false, false, 0, false, false, false})
		}
		out = append(out, shutItem{"signal during start-up between two runs", p, 1, 1000, nil, 0, 1, false, false, false, 0, true, false, false})
		// the repository's own main() instead of the replica of its orchestration
		out = append(out, shutItem{"real main(): data before the signal", p, 1, 1000, []string{"dataB-short"}, 0, 1, false, false, false, 0, false, true, false})
		out = append(out, shutItem{"real main(): the signal is repeated while the collector is stopping", p, 1, 1000, []string{"dataB-short"}, 0, 1, false, false, false, 0, false, true, true})
	}
	return out
}

func c15Space(tier string) mck.Space      { return c15SpaceOf(c15Items(tier), 4) }
func c15LocksSpace(tier string) mck.Space { return c15SpaceOf(c15LockItems(tier), 8) }

func c15SpaceOf(its []shutItem, K int) mck.Space {
	return mck.FuncSpace{N: uint64(len(its) * K), F: func(idx0 uint64, c *mck.Ctx) {
		idx := idx0 / uint64(K)
		shard := int(idx0 % uint64(K))
		it := its[idx]
		al := alphabet(it.proto)
		if it.proto == ppIPFIX || it.proto == ppV9 {
			// data for template 300 (announced by the "template" datagram of exporter A)
			_, t1, _ := flowTemplates(it.proto == ppV9)
			t := ref.Template{ID: 300, Fields: t1.Fields}
			short := ref.Template{ID: 300, Fields: t1.Fields[:1]}
			// an options template (scope + option fields) of the same exporter: cache files hold those too
			opt := ref.Template{ID: 310, Options: true, Scope: []ref.Field{t1.Fields[0]}, Fields: t1.Fields[1:]}
			osz := ref.Set{Kind: ref.SetTemplates, Templates: []ref.Template{opt}}
			if it.proto == ppV9 {
				osz.Pad = (4 - (6+4*len(opt.All()))%4) % 4
			}
			al["opt-template"] = pdgram{"opt-template", expA, (&ref.Msg{V9: it.proto == ppV9, Hdr: [5]uint32{1, 9, 9, 9, 8}, Sets: []ref.Set{osz}}).Encode(nil)}
			al["template-short"] = pdgram{"template-short", expA, (&ref.Msg{V9: it.proto == ppV9, Hdr: [5]uint32{1, 9, 9, 9, 9}, Sets: []ref.Set{{Kind: ref.SetTemplates, Templates: []ref.Template{short}}}}).Encode(nil)}
			al["t1-data"] = pdgram{"t1-data", expA, (&ref.Msg{V9: it.proto == ppV9, Hdr: [5]uint32{1, 5, 6, 7, 8}, Sets: []ref.Set{{Kind: ref.SetData, TemplateID: 300, Records: []ref.Record{flowRec(t, 33)}}}}).Encode(map[uint16]ref.Template{300: t})}
		}
		cacheFile := filepath.Join(pipeTmpGet(), fmt.Sprintf("c15-%d.cache", idx0))
		// every other unit keeps its cache file on ANOTHER FILESYSTEM than the temporary directory (where the runner
		// found one): saving at shutdown must not depend on where temporary files live
		if alt := os.Getenv("VERIF_CACHE_DIR2"); alt != "" && idx0%2 == 1 {
			cacheFile = filepath.Join(alt, fmt.Sprintf("c15-%d-%d.cache", os.Getpid(), idx0))
			defer os.Remove(cacheFile)
		}
		// expected publication after the restart: standalone decode of t1-data with T1 known
		wantRestart := ""
		if d, ok := al["t1-data"]; ok {
			pre := filepath.Join(pipeTmpGet(), fmt.Sprintf("c15-pre-%d.cache", idx0))
			cc := flowh.NewCaches()
			flowh.Decode(it.proto == ppV9, al["template"].ip, al["template"].wire, cc)
			if it.proto == ppV9 {
				cc.N.Dump(pre)
			} else {
				cc.I.Dump(pre)
			}
			_, wantRestart = standalone(it.proto, d, pre, nil)
		}
		cyc := 2
		if it.once {
			cyc = 1
		}
		pit := pipeItem{name: fmt.Sprintf("%s workers=%d queue=%d after-signal=%d cycles=%d [unit %d/%d]", it.name, it.workers, it.udpCap, it.after, cyc, shard, K), run: pipeRun{proto: it.proto, workers: it.workers}, bound: it.bound}
		for _, n := range it.inflight {
			pit.run.seq = append(pit.run.seq, al[n])
		}
		var so shutObs
		var smu realsync.Mutex
		explorePipe(c, pit, func(out *pipeObs, mu *realsync.Mutex) { runShutdown(it, al, cacheFile, &so, &smu) },
			func(o pipeObs) (string, string) {
				smu.Lock()
				s := so
				so = shutObs{}
				smu.Unlock()
				name := ppNames[it.proto]
				if s.phase != "cycle 1: done" && !(it.once && s.phase == "cycle 0: done") {
					return name + ":shutdown:did-not-finish", "the harness stopped in phase: " + s.phase
				}
				if s.exitNs > 10e9 { // "within a few seconds"
					return name + ":shutdown:slow-exit", fmt.Sprintf("the collector needed %.1f virtual seconds to exit after the signal", float64(s.exitNs)/1e9)
				}
				if s.fileErr != "" {
					return name + ":shutdown:templates-lost", s.fileErr
				}
				if s.lostEarly != "" {
					return name + ":shutdown:template-received-before-signal-lost", s.lostEarly
				}
				if wantRestart != "" && !it.once && (len(s.restartPub) != 1 || s.restartPub[0] != wantRestart) {
					return name + ":shutdown:restart-decode", fmt.Sprintf("after the restart data for the saved template was not decoded at once: published %v, expected %s", s.restartPub, wantRestart)
				}
				return "", ""
			}, true, shard, K)
	}}
}

// C16 (scheduler part): the ipfix and sflow pipelines with mirroring switched on.
func c16Items(tier string) []pipeItem {
	var out []pipeItem
	b := 1
	if tier == "thorough" {
		b = 2
	}
	for _, p := range []int{ppIPFIX, ppSFlow} {
		al := alphabet(p)
		cache := ""
		if p == ppIPFIX {
			cache = preloadCache(false)
		}
		for _, w := range []int{1, 2} {
			out = append(out, pipeItem{"mirroring on", pipeRun{proto: p, workers: w, seq: seqOf(al, "dataA-long", "dataB-short", "dataA-mid"), cache: cache, mirror: true}, b})
			out = append(out, pipeItem{"mirroring on, undecodable datagrams among the good ones", pipeRun{proto: p, workers: w, seq: seqOf(al, "wrong-version", "dataB-short", "truncated", "dataA-mid"), cache: cache, mirror: true}, b})
		}
		// an IPv6 exporter among the IPv4 ones (the target is IPv4): its datagrams cannot be mirrored, the others must be
		v6 := pdgram{"dataB-short-from-an-IPv6-exporter", net.ParseIP("2001:db8::77"), al["dataB-short"].wire}
		out = append(out, pipeItem{"mirroring on, an IPv6 exporter first", pipeRun{proto: p, workers: 1, seq: append([]pdgram{v6}, seqOf(al, "dataA-long", "dataB-short", "dataA-mid")...), cache: cache, mirror: true}, b})
		// the mirror target refuses every packet (the mirror worker gives up) and every queue holds ONE entry:
		// after a few datagrams the mirror queues are full for good - decoding must go on regardless
		out = append(out, pipeItem{"mirror dead, queues of one entry", pipeRun{proto: p, workers: 1, seq: seqOf(al, "dataA-mid", "dataB-short", "dataA-mid", "dataB-short", "dataA-mid", "dataB-short", "dataA-long"), cache: cache, mirror: true, mirrorDead: true, qcap: 1, paced: true}, b})
		out = append(out, pipeItem{"mirroring on, paced traffic short-mid-long", pipeRun{proto: p, workers: 1, seq: seqOf(al, "dataB-short", "dataA-mid", "dataA-long", "dataA-mid"), cache: cache, mirror: true, paced: true}, b})
		if p == ppSFlow {
			// all protocols live in one process: IPFIX with jumbo-frame buffers beside the mirrored sFlow pipeline
			out = append(out, pipeItem{"mirroring on, an IPFIX pipeline with max-udp-size 9000 beside it", pipeRun{proto: p, workers: 1, seq: seqOf(al, "dataA-long", "dataB-short", "dataA-mid"), mirror: true, paced: true, companion: true}, b})
		}
	}
	return out
}

var pipeSpaces = map[string]func(string) mck.Space{
	"pipe.c16":      pipeSpace(c16Items, 4),
	"pipe.c15":      c15Space,
	"pipe.c15locks": c15LocksSpace,
	"pipe.c12":      pipeSpace(c12Items, 2),
	"pipe.c08":      pipeSpace(c08Items, 4),
	"pipe.c01":      pipeSpace(c01Items, 2),
	"pipe.c18":      pipeSpace(c18Items, 4),
	"pipe.c13":      pipeSpace(c13Items, 1),
}

func main() { mck.Main(pipeSpaces) }

// ---- race log (same mechanism as the cache harness) -------------------------------------

var raceLog = func() string {
	for _, kv := range strings.Fields(os.Getenv("GORACE")) {
		if strings.HasPrefix(kv, "log_path=") {
			return strings.TrimPrefix(kv, "log_path=") + "." + fmt.Sprint(os.Getpid())
		}
	}
	return ""
}()
var raceSeen int64

func newRaceReport() string {
	if raceLog == "" {
		return ""
	}
	st, err := os.Stat(raceLog)
	if err != nil || st.Size() <= raceSeen {
		return ""
	}
	b, _ := os.ReadFile(raceLog)
	rep := string(b[raceSeen:])
	raceSeen = st.Size()
	return rep
}

func raceSig(rep string) string {
	var sites []string
	for _, blk := range strings.Split(rep, "\n\n") {
		if !(strings.Contains(blk, "by goroutine") || strings.Contains(blk, "by main goroutine")) || strings.HasPrefix(strings.TrimSpace(blk), "Goroutine") {
			continue
		}
		for _, l := range strings.Split(blk, "\n") {
			l = strings.TrimSpace(l)
			if (strings.HasPrefix(l, "github.com/EdgeCast/vflow/") && !strings.Contains(l, "zzverif")) || (strings.HasPrefix(l, "main.") && !strings.Contains(l, "main.runPipe") && !strings.Contains(l, "main.explorePipe") && !strings.Contains(l, "main.pipeSpace")) {
				f := l
				if j := strings.LastIndex(f, "("); j > 0 {
					f = f[:j]
				}
				sites = append(sites, strings.TrimPrefix(f, "github.com/EdgeCast/vflow/"))
				break
			}
		}
		if len(sites) == 2 {
			break
		}
	}
	sort.Strings(sites)
	return "race:" + strings.Join(sites, "|")
}

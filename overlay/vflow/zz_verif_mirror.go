//go:build verif

// C16: mirrored datagrams reach the third-party collector unchanged. The real mirrorIPFIX /
// mirrorSFlow goroutines send through a real raw socket (CAP_NET_RAW) over loopback; a real UDP
// listener stands in for the third party and a second raw socket captures the IP header.
package main

import (
	"bytes"
	"encoding/binary"
	"fmt"
	"net"
	"os"
	"syscall"
	"time"

	"github.com/EdgeCast/vflow/zzverif/mck"
	sync "github.com/EdgeCast/vflow/zzverif/vsync"
)

func init() {
	pipeSpaces["mirror.len"] = mirrorSpace
}

type mirrorRig struct {
	key   string
	ipfix chan IPFIXUDPMsg
	sflow chan SFUDPMsg
	lsn   *net.UDPConn
	raw   int // raw IPPROTO_UDP socket: sees the IP header of every UDP datagram delivered locally
	port  int
}

var rigs = map[string]*mirrorRig{}

func rawSupported() error {
	fd, err := syscall.Socket(syscall.AF_INET, syscall.SOCK_RAW, syscall.IPPROTO_RAW)
	if err != nil {
		return err
	}
	syscall.Close(fd)
	return nil
}

// getRig starts (once per configuration) the real mirror goroutine and the listeners.
// thirdParty is this worker process's own loopback address (127.0.<shard+1>.1): the UDP listener and
// the raw capture are bound to it, so the kernel delivers only this process's mirrored datagrams.
func thirdParty() net.IP { a := mck.LoopAddr(); return net.IPv4(a[0], a[1], a[2], a[3]) }

func getRig(isSFlow bool, udpSize, port int) (*mirrorRig, error) {
	key := fmt.Sprint(isSFlow, udpSize, port)
	if r, ok := rigs[key]; ok {
		return r, nil
	}
	var lsn *net.UDPConn
	var raw int
	var err error
	for _, o := range rigs { // listeners are per target port, shared by the configurations using it
		if o.port == port {
			lsn, raw = o.lsn, o.raw
		}
	}
	if lsn == nil {
		lsn, err = net.ListenUDP("udp4", &net.UDPAddr{IP: thirdParty(), Port: port})
		if err != nil {
			return nil, err
		}
		raw, err = syscall.Socket(syscall.AF_INET, syscall.SOCK_RAW, syscall.IPPROTO_UDP)
		if err != nil {
			return nil, err
		}
		var la syscall.SockaddrInet4
		copy(la.Addr[:], thirdParty().To4())
		if err = syscall.Bind(raw, &la); err != nil {
			return nil, err
		}
		syscall.SetsockoptTimeval(raw, syscall.SOL_SOCKET, syscall.SO_RCVTIMEO, &syscall.Timeval{Usec: 300000})
		syscall.SetsockoptInt(raw, syscall.SOL_SOCKET, syscall.SO_RCVBUF, 4<<20)
	}
	r := &mirrorRig{key: key, lsn: lsn, raw: raw, port: port}
	o := NewOptions()
	o.IPFIXUDPSize, o.SFlowUDPSize = udpSize, udpSize
	opts = o
	dst := thirdParty().To16()
	if isSFlow {
		sFlowBuffer = &sync.Pool{New: func() interface{} { return make([]byte, udpSize) }}
		r.sflow = make(chan SFUDPMsg, 4)
		go mirrorSFlow(dst, port, r.sflow)
	} else {
		ipfixBuffer = &sync.Pool{New: func() interface{} { return make([]byte, udpSize) }}
		r.ipfix = make(chan IPFIXUDPMsg, 4)
		go mirrorIPFIX(dst, port, r.ipfix)
	}
	time.Sleep(20 * time.Millisecond) // let the goroutine read opts and open its raw socket
	rigs[key] = r
	return r, nil
}

// recvNow: one non-blocking receive on a UDP socket (no deadline arithmetic: a deadline that expires
// while the goroutine is descheduled would report "nothing there" without looking).
func recvNow(c *net.UDPConn, buf []byte) (n int, from net.IP, ok bool) {
	rc, err := c.SyscallConn()
	if err != nil {
		return 0, nil, false
	}
	rc.Control(func(fd uintptr) {
		k, sa, e := syscall.Recvfrom(int(fd), buf, syscall.MSG_DONTWAIT)
		if e == nil {
			n, ok = k, true
			if a, isv4 := sa.(*syscall.SockaddrInet4); isv4 {
				from = net.IPv4(a.Addr[0], a.Addr[1], a.Addr[2], a.Addr[3])
			}
		}
	})
	return
}

// recvWait polls recvNow until a datagram is there (kernel delivery; generous limit, never reached when it works)
func recvWait(c *net.UDPConn, buf []byte, limit time.Duration) (int, net.IP, bool) {
	deadline := time.Now().Add(limit)
	for {
		if n, from, ok := recvNow(c, buf); ok {
			return n, from, true
		}
		if time.Now().After(deadline) {
			return 0, nil, false
		}
		time.Sleep(50 * time.Microsecond)
	}
}

var mirrorExporters = []net.IP{{192, 1, 1, 1}, {10, 0, 0, 1}, {127, 0, 0, 2}, {255, 255, 255, 254}}

func mirrorSpace(tier string) mck.Space {
	sizes := []int{64, 576, 1500}
	ports := []int{10024, 1024, 65535}
	type cfg struct {
		sflow bool
		size  int
		port  int
	}
	var cfgs []cfg
	for _, sf := range []bool{false, true} {
		for _, s := range sizes {
			for pi, p := range ports {
				if tier != "thorough" && pi > 0 && s != 64 {
					continue // quick: every port only with the smallest buffer
				}
				cfgs = append(cfgs, cfg{sf, s, p})
			}
		}
	}
	// index: cfg x exporter(4) x form(2) x fill(2) x length(0..size)
	var cum []uint64
	total := uint64(0)
	for _, c := range cfgs {
		cum = append(cum, total)
		total += uint64(4 * 2 * 2 * (c.size + 1))
	}
	rawErr := rawSupported()
	return mck.FuncSpace{N: total, F: func(idx uint64, c *mck.Ctx) {
		if rawErr != nil {
			c.Incomplete()
			c.Skip()
			return
		}
		ci := 0
		for ci+1 < len(cum) && cum[ci+1] <= idx {
			ci++
		}
		cf := cfgs[ci]
		off := int(idx - cum[ci])
		n := off % (cf.size + 1)
		off /= cf.size + 1
		fill, form, ex := off%2, (off/2)%2, off/4
		if tier != "thorough" && ex > 0 && n%7 != 0 && n < cf.size-40 && n > 40 {
			c.Skip() // quick: every length for the first exporter, every 7th (and both ends) for the others
			return
		}
		src := mirrorExporters[ex]
		ip := append(net.IP{}, src...)
		if form == 1 {
			ip = src.To16()
		}
		buf := make([]byte, cf.size)
		payload := buf[:n]
		for i := range payload {
			if fill == 0 {
				payload[i] = byte(i*7 + n)
			} else {
				payload[i] = 0xff
			}
		}
		want := append([]byte{}, payload...)
		desc := func() interface{} {
			return map[string]interface{}{"mirror": map[bool]string{false: "ipfix", true: "sflow"}[cf.sflow], "max_udp_size": cf.size, "target_port": cf.port, "exporter": src.String(), "exporter_addr_octets": len(ip), "payload_len": n, "fill": fill}
		}
		c.SetCase(desc)
		// each worker process uses its own target ports (the UDP listeners cannot be shared)
		port := cf.port
		rig, err := getRig(cf.sflow, cf.size, port)
		if err != nil {
			// the harness could not set up its sockets: a machinery error, never a verdict
			fmt.Fprintln(os.Stderr, "mirror rig:", err)
			os.Exit(3)
		}
		// drain anything left over
		tmp := make([]byte, 65536)
		for {
			if _, _, ok := recvNow(rig.lsn, tmp); !ok {
				break
			}
		}
		for { // and from the raw capture
			if _, _, e := syscall.Recvfrom(rig.raw, tmp, syscall.MSG_DONTWAIT); e != nil {
				break
			}
		}
		raddr := &net.UDPAddr{IP: ip, Port: 40000}
		if cf.sflow {
			rig.sflow <- SFUDPMsg{raddr, payload}
		} else {
			rig.ipfix <- IPFIXUDPMsg{raddr, payload}
		}
		proto := "ipfix"
		if cf.sflow {
			proto = "sflow"
		}
		lenClass := "len<=max-28"
		if n > cf.size-28 {
			lenClass = "len>max-28"
		}
		cls := fmt.Sprintf("%s:%s:addr%d", proto, lenClass, len(ip))
		m, fromIP, got := recvWait(rig.lsn, tmp, 5*time.Second)
		if !got {
			c.Violation("mirror:not-delivered:"+cls, "no datagram reached the third-party collector", desc())
			return
		}
		from := &net.UDPAddr{IP: fromIP}
		if !bytes.Equal(tmp[:m], want) {
			c.Violation("mirror:payload:"+cls, fmt.Sprintf("payload differs: got %d octets, want %d", m, len(want)), desc())
			return
		}
		if !from.IP.Equal(src) {
			c.Violation("mirror:source:"+cls, fmt.Sprintf("source address %s, expected the exporter %s", from.IP, src), desc())
			return
		}
		// IP / UDP header consistency from the raw capture
		hdr := make([]byte, 65536)
		found := false
		rawDeadline := time.Now().Add(5 * time.Second)
		for !found && time.Now().Before(rawDeadline) {
			k, _, e := syscall.Recvfrom(rig.raw, hdr, syscall.MSG_DONTWAIT)
			if e != nil {
				time.Sleep(50 * time.Microsecond)
				continue
			}
			if k < 28 || hdr[9] != 17 {
				continue
			}
			ihl := int(hdr[0]&0xf) * 4
			if int(binary.BigEndian.Uint16(hdr[ihl+2:])) != port || !net.IP(hdr[12:16]).Equal(src) {
				continue
			}
			found = true
			tot := int(binary.BigEndian.Uint16(hdr[2:]))
			ulen := int(binary.BigEndian.Uint16(hdr[ihl+4:]))
			if tot != 20+8+n || ulen != 8+n || ihl != 20 || !net.IP(hdr[16:20]).Equal(thirdParty()) || k != tot {
				c.Violation("mirror:header:"+cls, fmt.Sprintf("IP total length %d, UDP length %d, IHL %d, captured %d octets, dst %s for a payload of %d", tot, ulen, ihl, k, net.IP(hdr[16:20]), n), desc())
				return
			}
		}
		if !found {
			c.Violation("mirror:header-not-captured:"+cls, "the raw capture did not see the datagram", desc())
			return
		}
		// exactly one: nothing else may follow
		if _, _, again := recvNow(rig.lsn, tmp); again {
			c.Violation("mirror:duplicate:"+cls, "a second datagram arrived", desc())
		}
		c.Nontrivial(mck.Hash64(want, ip, []byte(rig.key)))
		c.Outcome(cls)
		if idx%9973 == 0 {
			c.Sample(desc)
		}
	}}
}

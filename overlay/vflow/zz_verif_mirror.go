//go:build verif

// C16: mirrored datagrams reach the third-party collector unchanged. The real mirrorIPFIX /
// mirrorSFlow goroutines send through a real raw socket (CAP_NET_RAW) over loopback; a real UDP
// listener stands in for the third party and a second raw socket captures the IP header.
package main

import (
	"bytes"
	"encoding/binary"
	"encoding/json"
	"fmt"
	"net"
	"os"
	"os/exec"
	"runtime"
	"strconv"
	"strings"
	"sync/atomic"
	"syscall"
	"time"

	"github.com/EdgeCast/vflow/zzverif/mck"
	sync "github.com/EdgeCast/vflow/zzverif/vsync"
)

func init() {
	pipeSpaces["mirror.len"] = mirrorSpace
	pipeSpaces["mirror.slowlink"] = slowlinkSpace
	if v := os.Getenv(slowEnv); v != "" {
		slowlinkChild(v)
		os.Exit(0)
	}
}

type mirrorRig struct {
	key   string
	ipfix chan IPFIXUDPMsg
	sflow chan SFUDPMsg
	lsn   *net.UDPConn
	raw   int // raw IPPROTO_UDP socket: sees the IP header of every UDP datagram delivered locally
	port  int
}

var rigs = map[string]*mirrorRig{}

func rawSupported() error {
	fd, err := syscall.Socket(syscall.AF_INET, syscall.SOCK_RAW, syscall.IPPROTO_RAW)
	if err != nil {
		return err
	}
	syscall.Close(fd)
	return nil
}

// getRig starts (once per configuration) the real mirror goroutine and the listeners.
// thirdParty is this worker process's own loopback address (127.0.<shard+1>.1): the UDP listener and
// the raw capture are bound to it, so the kernel delivers only this process's mirrored datagrams.
func thirdParty() net.IP { a := mck.LoopAddr(); return net.IPv4(a[0], a[1], a[2], a[3]) }

func getRig(isSFlow bool, udpSize, port int) (*mirrorRig, error) {
	key := fmt.Sprint(isSFlow, udpSize, port)
	if r, ok := rigs[key]; ok {
		return r, nil
	}
	var lsn *net.UDPConn
	var raw int
	var err error
	for _, o := range rigs { // listeners are per target port, shared by the configurations using it
		if o.port == port {
			lsn, raw = o.lsn, o.raw
		}
	}
	if lsn == nil {
		lsn, err = net.ListenUDP("udp4", &net.UDPAddr{IP: thirdParty(), Port: port})
		if err != nil {
			return nil, err
		}
		raw, err = syscall.Socket(syscall.AF_INET, syscall.SOCK_RAW, syscall.IPPROTO_UDP)
		if err != nil {
			return nil, err
		}
		var la syscall.SockaddrInet4
		copy(la.Addr[:], thirdParty().To4())
		if err = syscall.Bind(raw, &la); err != nil {
			return nil, err
		}
		syscall.SetsockoptTimeval(raw, syscall.SOL_SOCKET, syscall.SO_RCVTIMEO, &syscall.Timeval{Usec: 300000})
		syscall.SetsockoptInt(raw, syscall.SOL_SOCKET, syscall.SO_RCVBUF, 4<<20)
	}
	r := &mirrorRig{key: key, lsn: lsn, raw: raw, port: port}
	o := NewOptions()
	o.IPFIXUDPSize, o.SFlowUDPSize = udpSize, udpSize
	opts = o
	dst := thirdParty().To16()
	if isSFlow {
		sFlowBuffer = &sync.Pool{New: func() interface{} { return make([]byte, udpSize) }}
		r.sflow = make(chan SFUDPMsg, 4)
		go mirrorSFlow(dst, port, r.sflow)
	} else {
		ipfixBuffer = &sync.Pool{New: func() interface{} { return make([]byte, udpSize) }}
		r.ipfix = make(chan IPFIXUDPMsg, 4)
		go mirrorIPFIX(dst, port, r.ipfix)
	}
	time.Sleep(20 * time.Millisecond) // let the goroutine read opts and open its raw socket
	rigs[key] = r
	return r, nil
}

// recvNow: one non-blocking receive on a UDP socket (no deadline arithmetic: a deadline that expires
// while the goroutine is descheduled would report "nothing there" without looking).
func recvNow(c *net.UDPConn, buf []byte) (n int, from net.IP, ok bool) {
	rc, err := c.SyscallConn()
	if err != nil {
		return 0, nil, false
	}
	rc.Control(func(fd uintptr) {
		k, sa, e := syscall.Recvfrom(int(fd), buf, syscall.MSG_DONTWAIT)
		if e == nil {
			n, ok = k, true
			if a, isv4 := sa.(*syscall.SockaddrInet4); isv4 {
				from = net.IPv4(a.Addr[0], a.Addr[1], a.Addr[2], a.Addr[3])
			}
		}
	})
	return
}

// recvWait polls recvNow until a datagram is there (kernel delivery; generous limit, never reached when it works)
func recvWait(c *net.UDPConn, buf []byte, limit time.Duration) (int, net.IP, bool) {
	deadline := time.Now().Add(limit)
	for {
		if n, from, ok := recvNow(c, buf); ok {
			return n, from, true
		}
		if time.Now().After(deadline) {
			return 0, nil, false
		}
		time.Sleep(50 * time.Microsecond)
	}
}

var mirrorExporters = []net.IP{{192, 1, 1, 1}, {10, 0, 0, 1}, {127, 0, 0, 2}, {255, 255, 255, 254}}

func mirrorSpace(tier string) mck.Space {
	sizes := []int{64, 576, 1500}
	ports := []int{10024, 1024, 65535}
	type cfg struct {
		sflow bool
		size  int
		port  int
	}
	var cfgs []cfg
	for _, sf := range []bool{false, true} {
		for _, s := range sizes {
			for pi, p := range ports {
				if tier != "thorough" && pi > 0 && s != 64 {
					continue // quick: every port only with the smallest buffer
				}
				cfgs = append(cfgs, cfg{sf, s, p})
			}
		}
	}
	// index: cfg x exporter(4) x form(2) x fill(2) x length(0..size)
	var cum []uint64
	total := uint64(0)
	for _, c := range cfgs {
		cum = append(cum, total)
		total += uint64(4 * 2 * 2 * (c.size + 1))
	}
	rawErr := rawSupported()
	return mck.FuncSpace{N: total, F: func(idx uint64, c *mck.Ctx) {
		if rawErr != nil {
			c.Incomplete()
			c.Skip()
			return
		}
		ci := 0
		for ci+1 < len(cum) && cum[ci+1] <= idx {
			ci++
		}
		cf := cfgs[ci]
		off := int(idx - cum[ci])
		n := off % (cf.size + 1)
		off /= cf.size + 1
		fill, form, ex := off%2, (off/2)%2, off/4
		if tier != "thorough" && ex > 0 && n%7 != 0 && n < cf.size-40 && n > 40 {
			c.Skip() // quick: every length for the first exporter, every 7th (and both ends) for the others
			return
		}
		src := mirrorExporters[ex]
		ip := append(net.IP{}, src...)
		if form == 1 {
			ip = src.To16()
		}
		buf := make([]byte, cf.size)
		payload := buf[:n]
		for i := range payload {
			if fill == 0 {
				payload[i] = byte(i*7 + n)
			} else {
				payload[i] = 0xff
			}
		}
		want := append([]byte{}, payload...)
		desc := func() interface{} {
			return map[string]interface{}{"mirror": map[bool]string{false: "ipfix", true: "sflow"}[cf.sflow], "max_udp_size": cf.size, "target_port": cf.port, "exporter": src.String(), "exporter_addr_octets": len(ip), "payload_len": n, "fill": fill}
		}
		c.SetCase(desc)
		// each worker process uses its own target ports (the UDP listeners cannot be shared)
		port := cf.port
		rig, err := getRig(cf.sflow, cf.size, port)
		if err != nil {
			// the harness could not set up its sockets: a machinery error, never a verdict
			fmt.Fprintln(os.Stderr, "mirror rig:", err)
			os.Exit(3)
		}
		// drain anything left over
		tmp := make([]byte, 65536)
		for {
			if _, _, ok := recvNow(rig.lsn, tmp); !ok {
				break
			}
		}
		for { // and from the raw capture
			if _, _, e := syscall.Recvfrom(rig.raw, tmp, syscall.MSG_DONTWAIT); e != nil {
				break
			}
		}
		raddr := &net.UDPAddr{IP: ip, Port: 40000}
		if cf.sflow {
			rig.sflow <- SFUDPMsg{raddr, payload}
		} else {
			rig.ipfix <- IPFIXUDPMsg{raddr, payload}
		}
		proto := "ipfix"
		if cf.sflow {
			proto = "sflow"
		}
		lenClass := "len<=max-28"
		if n > cf.size-28 {
			lenClass = "len>max-28"
		}
		cls := fmt.Sprintf("%s:%s:addr%d", proto, lenClass, len(ip))
		m, fromIP, got := recvWait(rig.lsn, tmp, 5*time.Second)
		if !got {
			c.Violation("mirror:not-delivered:"+cls, "no datagram reached the third-party collector", desc())
			return
		}
		from := &net.UDPAddr{IP: fromIP}
		if !bytes.Equal(tmp[:m], want) {
			c.Violation("mirror:payload:"+cls, fmt.Sprintf("payload differs: got %d octets, want %d", m, len(want)), desc())
			return
		}
		if !from.IP.Equal(src) {
			c.Violation("mirror:source:"+cls, fmt.Sprintf("source address %s, expected the exporter %s", from.IP, src), desc())
			return
		}
		// IP / UDP header consistency from the raw capture
		hdr := make([]byte, 65536)
		found := false
		rawDeadline := time.Now().Add(5 * time.Second)
		for !found && time.Now().Before(rawDeadline) {
			k, _, e := syscall.Recvfrom(rig.raw, hdr, syscall.MSG_DONTWAIT)
			if e != nil {
				time.Sleep(50 * time.Microsecond)
				continue
			}
			if k < 28 || hdr[9] != 17 {
				continue
			}
			ihl := int(hdr[0]&0xf) * 4
			if int(binary.BigEndian.Uint16(hdr[ihl+2:])) != port || !net.IP(hdr[12:16]).Equal(src) {
				continue
			}
			found = true
			tot := int(binary.BigEndian.Uint16(hdr[2:]))
			ulen := int(binary.BigEndian.Uint16(hdr[ihl+4:]))
			if tot != 20+8+n || ulen != 8+n || ihl != 20 || !net.IP(hdr[16:20]).Equal(thirdParty()) || k != tot {
				c.Violation("mirror:header:"+cls, fmt.Sprintf("IP total length %d, UDP length %d, IHL %d, captured %d octets, dst %s for a payload of %d", tot, ulen, ihl, k, net.IP(hdr[16:20]), n), desc())
				return
			}
		}
		if !found {
			c.Violation("mirror:header-not-captured:"+cls, "the raw capture did not see the datagram", desc())
			return
		}
		// exactly one: nothing else may follow
		if _, _, again := recvNow(rig.lsn, tmp); again {
			c.Violation("mirror:duplicate:"+cls, "a second datagram arrived", desc())
		}
		c.Nontrivial(mck.Hash64(want, ip, []byte(rig.key)))
		c.Outcome(cls)
		if idx%9973 == 0 {
			c.Sample(desc)
		}
	}}
}

// ---------------------------------------------------------------------------------------------
// mirror.slowlink: the environment answer loopback never gives - a link towards the third-party
// collector that is slower than the burst to be mirrored. Each case runs in a child process with a
// network namespace of its own (CLONE_NEWNET): a veth pair whose sending side is shaped by a token
// bucket (8 Mbit/s, queue far larger than a socket send buffer, so the shaper drops nothing), a
// permanent neighbour entry for the target, and an AF_PACKET capture on the far end standing in for
// the third party. The real mirrorIPFIX / mirrorSFlow goroutine is handed a burst of n datagrams and,
// after the link has drained, one more. Ends are state barriers (goroutine state from the runtime's
// dump, queue length of the channel, backlog of the shaper), never a timeout.

const slowEnv = "ZZ_VERIF_SLOWLINK"

type slowCase struct {
	SFlow  bool
	N      int
	Lo, Hi int
}

type slowResult struct {
	Setup        string   // non-empty: the environment could not be built (no verdict)
	Seen         int      // burst datagrams that reached the far end unchanged
	FirstMissing int      // -1: none
	Errors       []string // changed datagrams
	AfterSeen    bool     // the datagram handed over after the link had drained arrived
	WorkerGone   bool     // the mirror goroutine had returned
	Backpressure bool     // the sender was seen waiting in the kernel while the shaper held packets
}

func slowPayload(c slowCase, i int) []byte {
	b := make([]byte, c.Lo+i%(c.Hi-c.Lo+1))
	for k := range b {
		b[k] = byte(i*7 + k)
	}
	binary.BigEndian.PutUint32(b, uint32(i))
	return b
}

// mirrorGoroutineState: "" when no goroutine is inside the mirror function, else the runtime's wait state
func mirrorGoroutineState(fn string) string {
	buf := make([]byte, 1<<18)
	n := runtime.Stack(buf, true)
	for _, g := range strings.Split(string(buf[:n]), "\n\n") {
		if strings.Contains(g, fn+"(") {
			h := strings.SplitN(g, "\n", 2)[0]
			if i := strings.Index(h, "["); i >= 0 {
				return strings.TrimSuffix(h[i+1:], "]:")
			}
			return "?"
		}
	}
	return ""
}

func shaperBacklog() (pkts int, err error) {
	out, err := exec.Command("tc", "-s", "qdisc", "show", "dev", "zzv0").CombinedOutput()
	if err != nil {
		return 0, fmt.Errorf("tc -s: %v: %s", err, out)
	}
	f := strings.Fields(string(out))
	for i, w := range f {
		if w == "backlog" && i+2 < len(f) {
			return strconv.Atoi(strings.TrimSuffix(f[i+2], "p"))
		}
	}
	return 0, fmt.Errorf("tc -s: no backlog in %q", out)
}

func slowlinkChild(arg string) {
	var c slowCase
	var res slowResult
	res.FirstMissing = -1
	emit := func() {
		b, _ := json.Marshal(res)
		fmt.Printf("R %s\n", b)
		os.Exit(0)
	}
	if err := json.Unmarshal([]byte(arg), &c); err != nil {
		res.Setup = "bad case: " + err.Error()
		emit()
	}
	const port = 4172
	exporter, target := net.ParseIP("198.51.100.7"), net.ParseIP("10.77.0.2")
	for _, a := range [][]string{
		{"ip", "link", "set", "lo", "up"},
		{"ip", "link", "add", "zzv0", "type", "veth", "peer", "name", "zzv1"},
		{"ip", "addr", "add", "10.77.0.1/24", "dev", "zzv0"},
		{"ip", "link", "set", "zzv0", "up"},
		{"ip", "link", "set", "zzv1", "up"},
		{"ip", "neigh", "replace", "10.77.0.2", "lladdr", "02:00:00:00:77:02", "dev", "zzv0", "nud", "permanent"},
		{"tc", "qdisc", "add", "dev", "zzv0", "root", "tbf", "rate", "8mbit", "burst", "16kb", "limit", "4mb"},
	} {
		if out, err := exec.Command(a[0], a[1:]...).CombinedOutput(); err != nil {
			res.Setup = fmt.Sprintf("%v: %v: %s", a, err, out)
			emit()
		}
	}
	ifi, err := net.InterfaceByName("zzv1")
	if err != nil {
		res.Setup = err.Error()
		emit()
	}
	htons := func(v uint16) uint16 { return v<<8 | v>>8 }
	fd, err := syscall.Socket(syscall.AF_PACKET, syscall.SOCK_DGRAM, int(htons(syscall.ETH_P_IP)))
	if err == nil {
		err = syscall.Bind(fd, &syscall.SockaddrLinklayer{Protocol: htons(syscall.ETH_P_IP), Ifindex: ifi.Index})
	}
	if err != nil {
		res.Setup = "capture socket: " + err.Error()
		emit()
	}
	syscall.SetsockoptInt(fd, syscall.SOL_SOCKET, syscall.SO_RCVBUFFORCE, 16<<20)

	const udpSize = 1500
	o := NewOptions()
	o.IPFIXUDPSize, o.SFlowUDPSize = udpSize, udpSize
	opts = o
	body := func(i int) []byte {
		b := make([]byte, udpSize)
		p := slowPayload(c, i)
		return b[:copy(b, p)]
	}
	raddr := &net.UDPAddr{IP: exporter, Port: 40000}
	var qlen func() int
	var hand func(i int)
	var returned int32 // the mirror function has returned (it never does while it works)
	fn := "main.mirrorIPFIX"
	if c.SFlow {
		fn = "main.mirrorSFlow"
		sFlowBuffer = &sync.Pool{New: func() interface{} { return make([]byte, udpSize) }}
		ch := make(chan SFUDPMsg, c.N+1)
		qlen, hand = func() int { return len(ch) }, func(i int) { ch <- SFUDPMsg{raddr, body(i)} }
		for i := 0; i < c.N; i++ {
			hand(i)
		}
		go func() { mirrorSFlow(target, port, ch); atomic.StoreInt32(&returned, 1) }()
	} else {
		ipfixBuffer = &sync.Pool{New: func() interface{} { return make([]byte, udpSize) }}
		ch := make(chan IPFIXUDPMsg, c.N+1)
		qlen, hand = func() int { return len(ch) }, func(i int) { ch <- IPFIXUDPMsg{raddr, body(i)} }
		for i := 0; i < c.N; i++ {
			hand(i)
		}
		go func() { mirrorIPFIX(target, port, ch); atomic.StoreInt32(&returned, 1) }()
	}

	seen := make([]bool, c.N+1)
	buf := make([]byte, 65536)
	drain := func() (got int) {
		for {
			m, _, e := syscall.Recvfrom(fd, buf, syscall.MSG_DONTWAIT)
			if e != nil {
				return
			}
			p := buf[:m]
			if m < 28 || p[0] != 0x45 || p[9] != 17 || int(binary.BigEndian.Uint16(p[22:])) != port {
				continue
			}
			got++
			if !net.IP(p[12:16]).Equal(exporter) || !net.IP(p[16:20]).Equal(target) {
				res.Errors = append(res.Errors, fmt.Sprintf("addresses %v -> %v", net.IP(p[12:16]), net.IP(p[16:20])))
				continue
			}
			if int(binary.BigEndian.Uint16(p[2:])) != m || int(binary.BigEndian.Uint16(p[24:])) != m-20 {
				res.Errors = append(res.Errors, fmt.Sprintf("lengths: ip %d udp %d in a packet of %d octets", binary.BigEndian.Uint16(p[2:]), binary.BigEndian.Uint16(p[24:]), m))
				continue
			}
			if m < 32 {
				res.Errors = append(res.Errors, "short payload")
				continue
			}
			i := int(binary.BigEndian.Uint32(p[28:]))
			if i < 0 || i > c.N || !bytes.Equal(p[28:], slowPayload(c, i)) {
				res.Errors = append(res.Errors, fmt.Sprintf("payload of datagram %d changed", i))
				continue
			}
			if seen[i] {
				res.Errors = append(res.Errors, fmt.Sprintf("datagram %d mirrored twice", i))
			}
			seen[i] = true
		}
	}
	// quiesce: everything handed over so far has been sent or given up on, and is off the shaper
	quiesce := func() {
		t0 := time.Now()
		for {
			drain()
			st := mirrorGoroutineState(fn)
			if st == "syscall" || st == "running" || st == "runnable" {
				if n, e := shaperBacklog(); e == nil && n > 0 && st == "syscall" {
					res.Backpressure = true
				}
			}
			idle := (st == "" && atomic.LoadInt32(&returned) == 1) || (strings.HasPrefix(st, "chan receive") && qlen() == 0)
			if idle {
				n, e := shaperBacklog()
				if e != nil {
					res.Setup = e.Error()
					emit()
				}
				if n == 0 {
					// the last frames are on their way through the receive softirq
					for quiet := 0; quiet < 3; {
						time.Sleep(20 * time.Millisecond)
						if drain() == 0 {
							quiet++
						} else {
							quiet = 0
						}
					}
					res.WorkerGone = st == ""
					return
				}
			}
			if time.Since(t0) > 5*time.Minute {
				res.Setup = "the link did not drain (state " + st + ")"
				emit()
			}
			time.Sleep(5 * time.Millisecond)
		}
	}
	quiesce()
	for i := 0; i < c.N; i++ {
		if seen[i] {
			res.Seen++
		} else if res.FirstMissing < 0 {
			res.FirstMissing = i
		}
	}
	hand(c.N)
	quiesce()
	res.AfterSeen = seen[c.N]
	if len(res.Errors) > 5 {
		res.Errors = res.Errors[:5]
	}
	emit()
}

func slowlinkSpace(tier string) mck.Space {
	bursts := []int{300, 600}
	ranges := [][2]int{{1000, 1400}, {4, 200}}
	if tier == "thorough" {
		bursts = []int{1, 100, 300, 600, 1200}
		ranges = append(ranges, [2]int{1400, 1472}, [2]int{600, 600})
	}
	var cases []slowCase
	for _, sf := range []bool{false, true} {
		for _, n := range bursts {
			for _, r := range ranges {
				cases = append(cases, slowCase{sf, n, r[0], r[1]})
			}
		}
	}
	return mck.FuncSpace{N: uint64(len(cases)), F: func(idx uint64, c *mck.Ctx) {
		sc := cases[idx]
		proto := map[bool]string{false: "ipfix", true: "sflow"}[sc.SFlow]
		desc := func() interface{} {
			return map[string]interface{}{"mirror": proto, "burst": sc.N, "payload_len_min": sc.Lo, "payload_len_max": sc.Hi, "link": "veth, tbf 8mbit, own network namespace"}
		}
		c.SetCase(desc)
		arg, _ := json.Marshal(sc)
		cmd := exec.Command(os.Args[0])
		cmd.Env = append(os.Environ(), slowEnv+"="+string(arg))
		cmd.SysProcAttr = &syscall.SysProcAttr{Unshareflags: syscall.CLONE_NEWNET}
		out, err := cmd.CombinedOutput()
		var res slowResult
		ok := false
		for _, l := range strings.Split(string(out), "\n") {
			if strings.HasPrefix(l, "R ") && json.Unmarshal([]byte(l[2:]), &res) == nil {
				ok = true
			}
		}
		if !ok || res.Setup != "" {
			// no private network namespace / shaper here, or the child died: no verdict for this case
			fmt.Fprintf(os.Stderr, "mirror.slowlink: no verdict for case %d: %v %s %s\n", idx, err, res.Setup, lastLines(out))
			if t := string(out); !ok && (strings.Contains(t, "panic:") || strings.Contains(t, "fatal error:")) {
				if strings.Contains(t, "main.mirror") || strings.Contains(t, "vflow/mirror.") {
					c.Violation("mirror:slowlink:"+proto+":crash", lastLines(out), desc())
					return
				}
				os.Exit(3) // the harness itself failed
			}
			c.Incomplete()
			c.Skip()
			return
		}
		switch {
		case len(res.Errors) > 0:
			c.Violation("mirror:slowlink:"+proto+":changed", strings.Join(res.Errors, "; "), desc())
		case res.Seen != sc.N:
			c.Violation("mirror:slowlink:"+proto+":lost-on-a-slow-link", fmt.Sprintf("%d of %d datagrams reached the third-party collector (first missing: #%d; mirror goroutine returned: %v)", res.Seen, sc.N, res.FirstMissing, res.WorkerGone), desc())
		case !res.AfterSeen:
			c.Violation("mirror:slowlink:"+proto+":stopped-mirroring", fmt.Sprintf("a datagram handed over after the link had drained was not mirrored (mirror goroutine returned: %v)", res.WorkerGone), desc())
		default:
			c.Nontrivial(mck.Hash64(arg))
			c.Outcome(proto + ":all-delivered")
			if res.Backpressure {
				c.Count("sender_seen_waiting_on_the_link", 1)
			}
			c.Sample(desc)
		}
	}}
}

func lastLines(b []byte) string {
	s := strings.TrimSpace(string(b))
	if len(s) > 600 {
		s = s[len(s)-600:]
	}
	return s
}

//go:build verif

package ipfix

import "net"

// VerifInsert is the peer-fetched insert path (what RPC() does with a template obtained
// from another collector): the cache's private insert.
func VerifInsert(m MemCache, id uint16, addr net.IP, tr TemplateRecord) { m.insert(id, addr, tr) }

// VerifRetrieve is the cache's private lookup.
func VerifRetrieve(m MemCache, id uint16, addr net.IP) (TemplateRecord, bool) {
	return m.retrieve(id, addr)
}

// VerifDrainRPC empties the pending peer-request channel (a package-level channel of
// capacity 1 that unknown-template decodes post to without blocking).
func VerifDrainRPC() (n int) {
	for {
		select {
		case <-rpcChan:
			n++
		default:
			return
		}
	}
}

// VerifSetShardNo scales the number of shards down for schedule exploration (the cache code is
// generic in shardNo); returns the previous value.
func VerifSetShardNo(n int) int { o := shardNo; shardNo = n; return o }

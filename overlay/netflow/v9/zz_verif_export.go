//go:build verif

package netflow9

import "net"

// VerifInsert is the cache's private insert.
func VerifInsert(m MemCache, id uint16, addr net.IP, tr TemplateRecord) { m.insert(id, addr, tr) }

// VerifRetrieve is the cache's private lookup.
func VerifRetrieve(m MemCache, id uint16, addr net.IP) (TemplateRecord, bool) {
	return m.retrieve(id, addr)
}

// VerifSetShardNo scales the number of shards down for schedule exploration.
func VerifSetShardNo(n int) int { o := shardNo; shardNo = n; return o }

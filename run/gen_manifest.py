#!/usr/bin/env python3
"""Regenerates MANIFEST.json from the table below (kept in one place so it stays valid)."""
import json, os
V = os.path.dirname(os.path.dirname(os.path.abspath(__file__)))
ALL = ["C%02d" % i for i in range(1, 21)]
BASE_OFF = "cd /repo && GOFLAGS=-mod=mod GOPROXY=off GOSUMDB=off GOTOOLCHAIN=local go test -mod=mod -json -vet=off -count=1 -timeout 25m ./..."
CHECKS = json.load(open(os.path.join(V, "run", "manifest_checks.json")))
m = {
    "version": 1,
    "setup_cmd": "cd /verif && bin/check --setup",
    "hooks": {"guard": "verif", "enable": "go build -tags verif -overlay <generated json>: all harness code (virtual packages /repo/zzverif/..., in-package zz_verif_*.go files, mechanically instrumented copies of package files) is injected from /verif/overlay at build time; /repo holds no hook code",
              "baseline_off_cmd": BASE_OFF, "source_commits": [], "add_only": True},
    "engines": [
        {"name": "E1-enum", "path": "overlay/zzverif/mck + run/orch.py", "serves_properties": [], "kind_free_text": "bounded-exhaustive enumeration of indexed case spaces against Go reference models, sharded over sandboxed worker processes"},
        {"name": "E2-sched", "path": "overlay/zzverif/sched + tools/goinstr", "serves_properties": [], "kind_free_text": "stateless DFS over thread schedules (preemption-bounded) of mechanically instrumented real code under a futex-baton scheduler, race detector as per-schedule oracle"},
        {"name": "E3-bfs", "path": "overlay/zzverif/cmd/*", "serves_properties": [], "kind_free_text": "explicit-state breadth-first search; successor = replay of the shortest history on a fresh real object + one event"},
    ],
    "checks": [], "not_applicable": [],
    "notes": "All checks: bin/check <id> quick|thorough. Exit 0 held / 1 VIOLATION / 2 machinery error. Known findings: known_findings.jsonl.",
}
for pid in ALL:
    c = CHECKS.get(pid)
    if not c or not c.get("claimed"):
        m["not_applicable"].append({"property_id": pid, "reason": (c or {}).get("reason", "check not built yet (work in progress; see DESIGN.md section 3 for the planned model-checking design)")})
        continue
    m["checks"].append({
        "property_id": pid, "quick_cmd": "bin/check %s quick" % pid, "thorough_cmd": "bin/check %s thorough" % pid,
        "evidence_file": "/verif/evidence/%s.json" % pid, "replay_cmd_template": "bin/check %s --replay {path}" % pid,
        "engine": c["engine"], "level_claimed": {"category": "model_checking", "text": c["text"], "design_ref": c.get("design_ref", "DESIGN.md section 3, " + pid)},
        "level_note": c["note"], "technique": c["technique"]})
    for e in m["engines"]:
        if e["name"] in c["engine"]:
            e["serves_properties"].append(pid)
json.dump(m, open(os.path.join(V, "MANIFEST.json"), "w"), indent=1)
print("claimed:", [c["property_id"] for c in m["checks"]])

#!/usr/bin/env python3
"""mutanttable.py <mutants-run output>: markdown table of the reverse-fix and hand-written mutants and what caught them."""
import sys, collections
rows = collections.OrderedDict()
for l in open(sys.argv[1]):
    p = l.split()
    if len(p) < 3 or not p[2].startswith("exit="):
        continue
    sigs = [x[4:] for x in p[3:] if x.startswith("sig=")]
    rows.setdefault(p[0], []).append((p[1], p[2][5:], sigs))
what = {
 "revert_e36a74f": "config file named as -config=FILE ignored", "revert_0eaa8bd": "signal during start-up dumps the empty cache over the saved file",
 "revert_4e079ce": "mirror-enabled flags written by the dispatcher while workers read them", "revert_102dba4": "message used as printf format",
 "revert_bd595df": "mirror buffer without room for the headers", "revert_b217ed8": "4-byte exporter address crashes the mirror",
 "revert_32a9809": "filter on the command line appended to the file's", "revert_7be26e3": "sFlow shutdown before the listener exists",
 "revert_6c8423e": "Dump reads the shard maps without locks", "revert_b2ee96c": "cache file with missing shards accepted",
 "revert_bdc7ffe": "list types unknown to FieldTypes", "revert_5924f79": "writeValue error overwritten by the next field (equivalent now: no unencodable value is left after 02955f0/0727469)",
 "revert_0727469": "NaN / Inf written bare", "revert_5931177": "strings unescaped", "revert_0d9166a": "802.1Q header of 14..17 octets",
 "revert_871a967": "ext router record length unchecked", "revert_64db7ac": "vendor sample aborts the datagram", "revert_f4a6849": "IPv4 flags / fragment offset / IHL",
 "revert_9990ea5": "ext switch priority stored in the wrong field", "revert_934d3fa": "non-advancing record loops", "hand_v9_nonfatal_interface": "v9 nonfatalError as an interface type again (reverse of 3191627, adapted to compile)",
 "hand_close_in_shutdown": "shutdown closes the UDP queue (reverse of ae62187)", "hand_cache_key_hash_only": "cache keyed by the 32-bit hash (reverse of 85a39b9)",
 "hand_no_bool_case": "no bool case in writeValue (reverse of 02955f0)", "hand_padding_le4": "records of <=4 octets taken for padding (reverse of 60223f0)",
 "hand_put_before_decode": "receive buffer returned to the pool before the decode", "hand_shared_encode_buffer": "one encode buffer shared by the workers",
 "hand_count_before_check": "decoded counter incremented before the decode result is known", "hand_blocking_publish": "blocking send to the outgoing queue",
 "hand_getenv_after_loadcfg": "environment applied after the file", "hand_swapped_port_flags": "-ipfix-port and -netflow9-port registered on each other's field",
 "hand_filter_no_seek": "filtered sample not skipped by its length", "hand_v5_count_31": "v5 count 31 accepted", "hand_retry_resend": "retry resends after a partial success",
 "hand_dump_before_sleep": "cache dumped before the second of grace", "hand_mirror_udp_len": "mirror UDP length off by the header",
 "C19_uint16_adv1": "Uint16 advances by 1", "C12_publish_alias": "published slice aliases the encode buffer", "C10_dump_unlocked": "Dump without the shard lock",
}
print("| mutant | what it does | check | result |")
print("|---|---|---|---|")
for m, rs in rows.items():
    for c, rc, sigs in rs:
        res = "**caught** (" + sigs[0].replace("|", " / ") + ")" if rc == "1" and sigs else ("**caught**" if rc == "1" else ("not caught" if rc == "0" else "exit " + rc))
        print("| %s | %s | %s | %s |" % (m, what.get(m, ""), c, res))

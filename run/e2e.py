#!/usr/bin/env python3
"""End-to-end conformance helper: runs the REAL vflow binary (no overlay, no instrumentation)
on loopback with a TCP sink behind the rawSocket producer. Used to replay explored traces /
counterexample classes against the implementation as shipped (trace validation, not the
deciding step of any check)."""
import json, os, shutil, signal, socket, struct, subprocess, tempfile, threading, time, urllib.request
import orch


def build_real():
    out = os.path.join(orch.BUILD, "bin", "vflow-real.%d" % os.getpid())  # per run: a concurrent run may be executing its own
    os.makedirs(os.path.dirname(out), exist_ok=True)
    if os.path.exists(out):
        return out
    r = subprocess.run(["go", "build", "-o", out, "./vflow"], cwd=orch.REPO, env=orch.GOENV, stdout=subprocess.PIPE, stderr=subprocess.STDOUT, text=True)
    if r.returncode != 0:
        raise orch.MachineryError("build of the real vflow binary failed:\n" + r.stdout[-3000:])
    import atexit
    atexit.register(lambda p=out: os.path.exists(p) and os.remove(p))
    return out


def free_ports(n, kind=socket.SOCK_DGRAM):
    socks, ports = [], []
    for _ in range(n):
        s = socket.socket(socket.AF_INET, kind)
        s.bind(("127.0.0.1", 0))
        socks.append(s)
        ports.append(s.getsockname()[1])
    for s in socks:
        s.close()
    return ports


def udp_sockets_of(pid):
    """UDP sockets the process owns right now, from the kernel's tables: {local port: {"rxq": octets
    queued and unread, "drops": datagrams the kernel discarded for this socket}}. A state barrier for
    "the listener exists" (the stats API can answer before a protocol has bound its port) and the
    witness for "the collector received it" (a datagram the kernel discarded never reached it)."""
    inodes = set()
    try:
        for fd in os.listdir("/proc/%d/fd" % pid):
            try:
                l = os.readlink("/proc/%d/fd/%s" % (pid, fd))
            except OSError:
                continue
            if l.startswith("socket:["):
                inodes.add(l[8:-1])
    except OSError:
        return {}
    out = {}
    for f in ("/proc/net/udp", "/proc/net/udp6"):
        try:
            rows = open(f).read().splitlines()[1:]
        except OSError:
            continue
        for row in rows:
            c = row.split()
            if len(c) < 13 or c[9] not in inodes:
                continue
            out[int(c[1].rsplit(":", 1)[1], 16)] = {"rxq": int(c[4].split(":")[1], 16), "drops": int(c[12])}
    return out


class Sink(threading.Thread):
    """TCP sink standing in for the message-queue consumer (rawSocket producer)."""

    def __init__(self):
        super().__init__(daemon=True)
        self.srv = socket.socket(socket.AF_INET, socket.SOCK_STREAM)
        self.srv.setsockopt(socket.SOL_SOCKET, socket.SO_REUSEADDR, 1)
        self.srv.bind(("127.0.0.1", 0))
        self.srv.listen(16)
        self.port = self.srv.getsockname()[1]
        self.lines = []
        self.lock = threading.Lock()
        self.stop = False
        self.start()

    def run(self):
        self.srv.settimeout(0.2)
        conns = []
        while not self.stop:
            try:
                c, _ = self.srv.accept()
                threading.Thread(target=self.reader, args=(c,), daemon=True).start()
                conns.append(c)
            except socket.timeout:
                pass
            except OSError:
                break

    def reader(self, c):
        buf = b""
        c.settimeout(0.2)
        while not self.stop:
            try:
                d = c.recv(65536)
            except socket.timeout:
                continue
            except OSError:
                break
            if not d:
                break
            buf += d
            while b"\n" in buf:
                line, buf = buf.split(b"\n", 1)
                with self.lock:
                    self.lines.append(line)

    def snapshot(self):
        with self.lock:
            return list(self.lines)

    def close(self):
        self.stop = True
        try:
            self.srv.close()
        except OSError:
            pass


class Collector:
    def __init__(self, binary, workdir, extra_args=(), env=None, sink=None, config_text="", enable=("ipfix", "netflow9", "netflow5", "sflow"), minimal=False, config_as="-config FILE"):
        self.dir = workdir
        self.enable = () if minimal else tuple(enable)
        os.makedirs(os.path.join(workdir, "etc"), exist_ok=True)
        self.ports = dict(zip(("ipfix", "netflow9", "netflow5", "sflow"), free_ports(4)))
        self.http = free_ports(1, socket.SOCK_STREAM)[0]
        self.sink = sink
        with open(os.path.join(workdir, "etc", "vflow.conf"), "w") as f:
            f.write(config_text)
        if sink:
            with open(os.path.join(workdir, "etc", "mq.conf"), "w") as f:
                f.write("url: 127.0.0.1:%d\nprotocol: tcp\nretry-max: 2\n" % sink.port)
        self.cache = {"ipfix": os.path.join(workdir, "ipfix.cache"), "netflow9": os.path.join(workdir, "nf9.cache")}
        args = [binary, "-config", os.path.join(workdir, "etc", "vflow.conf"),
                "-pid-file", os.path.join(workdir, "vflow.pid"), "-log-file", os.path.join(workdir, "vflow.log"),
                "-stats-format", "restful", "-stats-http-addr", "127.0.0.1", "-stats-http-port", str(self.http),
                "-dynamic-workers=false", "-ipfix-rpc-enabled=false",
                "-ipfix-tpl-cache-file", self.cache["ipfix"], "-netflow9-tpl-cache-file", self.cache["netflow9"]]
        if minimal:
            # configuration conformance runs: only what is needed to run unprivileged side by side; the
            # settings under test come from config_text / env / extra_args
            cfg = os.path.join(workdir, "etc", "vflow.conf")
            cfgargs = {"-config FILE": ["-config", cfg], "-config=FILE": ["-config=" + cfg], "--config FILE": ["--config", cfg], "--config=FILE": ["--config=" + cfg]}[config_as]
            args = [binary] + cfgargs + ["-pid-file", os.path.join(workdir, "vflow.pid"),
                    "-log-file", os.path.join(workdir, "vflow.log"), "-stats-format", "restful", "-stats-http-addr", "127.0.0.1"]
            if not any(a.startswith("-stats-http-port") for a in extra_args) and "stats-http-port" not in config_text and "VFLOW_STATS_HTTP_PORT" not in (env or {}):
                args += ["-stats-http-port", str(self.http)]
        for p in ("ipfix", "netflow9", "netflow5", "sflow"):
            if minimal:
                continue
            args += ["-%s-port" % p, str(self.ports[p]), "-%s-workers" % p, "2", "-%s-enabled=%s" % (p, "true" if p in enable else "false")]
        if sink:
            args += ["-mqueue", "rawSocket", "-mqueue-conf", "mq.conf"]
        else:
            args += ["-producer-enabled=false"]
        args += list(extra_args)
        self.args = args
        self.err = open(os.path.join(workdir, "stderr.txt"), "ab")
        self.p = subprocess.Popen(args, stdout=self.err, stderr=self.err, env=dict(os.environ, **(env or {})))
        self.udp = socket.socket(socket.AF_INET, socket.SOCK_DGRAM)

    def wait_up(self, timeout=120):
        """Up = the stats API answers AND every enabled protocol has bound its UDP port (main() starts
        the listeners and the stats server as independent goroutines: on a busy machine the API answers
        first, and a datagram sent to a port nobody has bound yet is refused by the kernel, not lost by
        the collector). Minimal-mode runs, whose ports are the thing under test, use wait_bound()."""
        t0 = time.time()
        while time.time() - t0 < timeout:
            if self.p.poll() is not None:
                return False
            if self.stats() is not None and self.unbound() == []:
                return True
            time.sleep(0.05)
        return False

    def unbound(self):
        have = udp_sockets_of(self.p.pid)
        return [p for p in self.enable if self.ports[p] not in have]

    def wait_bound(self, ports, all_listeners=4, timeout=120):
        """True once the process owns UDP sockets on all of `ports`. False as soon as it owns
        `all_listeners` UDP sockets without them (every listener is up and none is where it was
        expected), when it has exited, or after the (generous) timeout."""
        t0 = time.time()
        while time.time() - t0 < timeout and self.p.poll() is None:
            have = udp_sockets_of(self.p.pid)
            if all(p in have for p in ports):
                return True
            if len(have) >= all_listeners:
                return False
            time.sleep(0.05)
        return False

    def kernel_drops(self, proto):
        return udp_sockets_of(self.p.pid).get(self.ports[proto], {}).get("drops", 0)

    def stats(self):
        try:
            with urllib.request.urlopen("http://127.0.0.1:%d/flow" % self.http, timeout=1) as r:
                return json.loads(r.read().decode())
        except Exception:
            return None

    def send(self, proto, data):
        self.udp.sendto(data, ("127.0.0.1", self.ports[proto]))

    def wait_count(self, proto_key, n, timeout=60, field="UDPCount"):
        """proto_key: IPFIX / SFlow / NetflowV5 / NetflowV9 in the /flow document. Returns as soon as
        the counter is there; the timeout is only how long a missing datagram is waited for."""
        t0 = time.time()
        st = None
        while time.time() - t0 < timeout:
            st = self.stats()
            if st and st.get(proto_key, {}).get(field, -1) >= n:
                return st
            if self.p.poll() is not None:
                return st
            time.sleep(0.02)
        return st

    def terminate(self, sig=signal.SIGTERM, timeout=30, second_after=None):
        t0 = time.time()
        self.p.send_signal(sig)
        if second_after is not None:  # an impatient operator / service manager: the same signal again while it is stopping
            time.sleep(second_after)
            if self.p.poll() is None:
                self.p.send_signal(sig)
        try:
            rc = self.p.wait(timeout=timeout)
        except subprocess.TimeoutExpired:
            self.p.kill()
            rc = None
        self.err.flush()
        return rc, time.time() - t0

    def alive(self):
        return self.p.poll() is None

    def output(self):
        out = ""
        for f in ("stderr.txt", "vflow.log"):
            try:
                out += open(os.path.join(self.dir, f), errors="replace").read()
            except Exception:
                pass
        return out

    def kill(self):
        if self.p.poll() is None:
            self.p.kill()
            self.p.wait()


def start(binary, workdir, tries=4, **kw):
    """Collector(...) + wait_up(), started again on fresh ports when the only thing wrong is that another
    process took one of the ports between free_ports() and the collector's bind (checks may run side by
    side). Returns (collector, up)."""
    col = None
    for _ in range(tries):
        col = Collector(binary, workdir, **kw)
        if col.wait_up():
            return col, True
        if col.alive() or "address already in use" not in col.output():
            return col, False
        col.kill()
        col.err.close()
        for f in ("stderr.txt", "vflow.log"):
            try:
                os.remove(os.path.join(workdir, f))
            except OSError:
                pass
    return col, False


# ---- tiny wire encoders (IPFIX / NetFlow v9 / v5) for the end-to-end runs -----------------

def ipfix_msg(sets, seq=1):
    body = b"".join(sets)
    return struct.pack(">HHIII", 10, 16 + len(body), 1700000000, seq, 7) + body


def ipfix_template_set(tid, fields):
    rec = struct.pack(">HH", tid, len(fields)) + b"".join(struct.pack(">HH", i, l) for i, l in fields)
    return struct.pack(">HH", 2, 4 + len(rec)) + rec


def data_set(tid, payload):
    return struct.pack(">HH", tid, 4 + len(payload)) + payload


def v9_msg(sets, count=1, seq=1):
    return struct.pack(">HHIIII", 9, count, 1000, 1700000000, seq, 7) + b"".join(sets)


def v9_template_set(tid, fields):
    rec = struct.pack(">HH", tid, len(fields)) + b"".join(struct.pack(">HH", i, l) for i, l in fields)
    return struct.pack(">HH", 0, 4 + len(rec)) + rec


def v5_msg(n):
    hdr = struct.pack(">HHIIIIBBH", 5, n, 1000, 1700000000, 0, 1, 0, 0, 0)
    rec = bytes(range(1, 49))
    return hdr + rec * n


def sflow_counter_msg():
    # one counter sample with a processor counters record
    rec = struct.pack(">II", 1001, 28) + struct.pack(">IIIQQ", 1, 2, 3, 4, 5)
    sample_body = struct.pack(">III", 9, 0x02000001, 1) + rec
    sample = struct.pack(">II", 2, len(sample_body)) + sample_body
    return struct.pack(">II4sIIII", 5, 1, bytes([192, 0, 2, 1]), 0, 1, 2, 1) + sample

#!/usr/bin/env python3
"""Per-property check definitions. Each function returns an exit code."""
import os, sys, time, json, subprocess
sys.path.insert(0, os.path.dirname(os.path.abspath(__file__)))
import orch
from orch import go_build, run_space, finish, log, MachineryError

CHECKS = {}


def check(pid):
    def deco(f):
        CHECKS[pid] = f
        return f
    return deco


# binaries: name -> (package dir under the overlay root, race?)
BINARIES = {
    "c19": ("zzverif/cmd/c19", False),
}


def build(name):
    pkg, race = BINARIES[name]
    return go_build(name, pkg, race=race)


@check("C19")
def c19(tier):
    t0 = time.time()
    b = build("c19")
    res = [run_space(b, "bfs", tier), run_space(b, "seq", tier)]
    return finish("C19", tier, res,
                  rule="bfs: one case per buffer (length 0..9 x 2 content families), explored to closure over reader positions with all 27 operations from every state; "
                       "seq: every operation sequence of length 5 (quick) / 6 (thorough) without state merging, rooted at (buffer, first two ops). "
                       "Non-trivial = buffer explored (bfs) / root whose subtree contains a sequence that consumed octets (seq); distinct by content hash.",
                  assumptions=["reader.Reader has exactly the fields (data []byte, count int) - asserted by reflection at start-up",
                               "negative length arguments are outside the statement ('a read of n octets')"], t0=t0)


def main(argv):
    if len(argv) >= 1 and argv[0] == "--setup":
        for n in BINARIES:
            build(n)
        return 0
    if len(argv) < 2:
        print(__doc__)
        return 2
    pid = argv[0]
    if pid not in CHECKS:
        print("unknown check", pid)
        return 2
    if argv[1] == "--replay":
        return replay(pid, argv[2])
    tier = argv[1]
    return CHECKS[pid](tier)


def replay(pid, path):
    rec = json.load(open(path))
    v = rec["first"]
    name = rec.get("binary") or v.get("binary") or pid.lower()
    b = build(name)
    cmd = [b, "-space", v["space"], "-tier", rec.get("tier", "quick"), "-only", str(v["idx"])] + list(v.get("args", []))
    log(" ".join(cmd))
    r = subprocess.run(cmd, env=orch.GOENV, stdout=subprocess.PIPE, stderr=subprocess.PIPE, text=True)
    hit = False
    for line in r.stdout.splitlines():
        try:
            o = json.loads(line)
        except Exception:
            continue
        if o.get("t") == "viol":
            hit = True
            print(json.dumps(o, indent=1)[:4000])
    if r.returncode != 0:
        hit = True
        print(r.stderr[-3000:])
    if hit:
        print("VIOLATION property=%s replay=%s" % (pid, path))
        return 1
    print("not reproduced")
    return 0


if __name__ == "__main__":
    try:
        sys.exit(main(sys.argv[1:]))
    except MachineryError as e:
        print("MACHINERY-ERROR:", e, file=sys.stderr)
        sys.exit(2)

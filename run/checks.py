#!/usr/bin/env python3
"""Per-property check definitions. Each function returns an exit code."""
import os, sys, time, json, subprocess
sys.path.insert(0, os.path.dirname(os.path.abspath(__file__)))
import orch
from orch import go_build, run_space, finish, log, MachineryError

CHECKS = {}


def check(pid):
    def deco(f):
        CHECKS[pid] = f
        return f
    return deco


# binaries: name -> (package dir under the overlay root, race?)
BINARIES = {
    "c19": ("zzverif/cmd/c19", False),
    "flow": ("zzverif/cmd/flow", False),
    "nf5": ("zzverif/cmd/nf5", False),
}


def build(name):
    pkg, race = BINARIES[name]
    return go_build(name, pkg, race=race)


@check("C19")
def c19(tier):
    t0 = time.time()
    b = build("c19")
    res = [run_space(b, "bfs", tier), run_space(b, "seq", tier)]
    return finish("C19", tier, res,
                  rule="bfs: one case per buffer (length 0..9 x 2 content families), explored to closure over reader positions with all 27 operations from every state; "
                       "seq: every operation sequence of length 5 (quick) / 6 (thorough) without state merging, rooted at (buffer, first two ops). "
                       "Non-trivial = buffer explored (bfs) / root whose subtree contains a sequence that consumed octets (seq); distinct by content hash.",
                  assumptions=["reader.Reader has exactly the fields (data []byte, count int) - asserted by reflection at start-up",
                               "negative length arguments are outside the statement ('a read of n octets')"], t0=t0)


FLOW_ASSUME = ["reference encoders/interpretation written from RFC 7011/7012 and RFC 3954 (zzverif/ref) are correct",
               "element types are taken from the information model in the tree (its agreement with the registry snapshot is C20)",
               "well-formed input only: padding shorter than the shortest record, reduced-size encoding never longer than the natural size, booleans 1/2",
               "private elements (enterprise 29305 / ids 30001-30009) are added to the exported model to reach signed and float32 interpretation"]


def flow_records(pid, proto, tier):
    t0 = time.time()
    b = build("flow")
    names = ["tpl2", "tpl3s", "pad8", "twosets", "allelems"]
    if tier == "thorough":
        names.append("tpl3")
    res = [run_space(b, proto + "." + n, tier) for n in names]
    return finish(pid, tier, res,
                  rule="cases are generated from an abstract description: template of 1..3 field kinds over the kind alphabet (one element per abstract type x encoding class: natural, reduced-size, fixed string/octets, variable length with 1- and 3-octet prefixes, enterprise) x scope split 0..n x 1..3 records x padding 0..3 (pad8: 4..7) x 4 value patterns x template in an earlier / the same message; twosets: two templates and two data sets in either order; allelems: every model element as a one-field template in each encoding class. "
                       "Non-trivial = every executed case (each carries >=1 record); distinct = distinct wire octets (FNV-64 of the message and of the announcing messages).",
                  assumptions=FLOW_ASSUME, t0=t0)


@check("C03")
def c03(tier):
    return flow_records("C03", "ipfix", tier)


@check("C06")
def c06(tier):
    return flow_records("C06", "v9", tier)


@check("C08")
def c08(tier):
    t0 = time.time()
    b = build("nf5")
    res = [run_space(b, "v5.rec", tier), run_space(b, "v5.pairs", tier)]
    return finish("C08", tier, res,
                  rule="v5.rec: version {5,0,9,10,0x0500} x count {1,2,29,30,0,31,65535} x datagram length {0..24, exact-48, exact-1, exact, exact+1, exact+48} x 61 content fills (position-unique, all-ones, all-zero, and per header/record field an all-ones one-hot and a low-bit pattern); v5.pairs: all ordered pairs of one-hot record fields in either record of a 2-flow packet. "
                       "Non-trivial = packet with a complete 24-octet header; distinct = distinct wire octets.",
                  assumptions=["field offsets/widths of the reference are transcribed from the Cisco NetFlow v5 export format", "JSON key names are those of the published format (the Go field names)"], t0=t0)


def main(argv):
    if len(argv) >= 1 and argv[0] == "--setup":
        for n in BINARIES:
            build(n)
        return 0
    if len(argv) < 2:
        print(__doc__)
        return 2
    pid = argv[0]
    if pid not in CHECKS:
        print("unknown check", pid)
        return 2
    if argv[1] == "--replay":
        return replay(pid, argv[2])
    tier = argv[1]
    return CHECKS[pid](tier)


def replay(pid, path):
    rec = json.load(open(path))
    v = rec["first"]
    name = rec.get("binary") or v.get("binary") or pid.lower()
    b = build(name)
    cmd = [b, "-space", v["space"], "-tier", rec.get("tier", "quick"), "-only", str(v["idx"])] + list(v.get("args", []))
    log(" ".join(cmd))
    r = subprocess.run(cmd, env=orch.GOENV, stdout=subprocess.PIPE, stderr=subprocess.PIPE, text=True)
    hit = False
    for line in r.stdout.splitlines():
        try:
            o = json.loads(line)
        except Exception:
            continue
        if o.get("t") == "viol":
            hit = True
            print(json.dumps(o, indent=1)[:4000])
    if r.returncode != 0:
        hit = True
        print(r.stderr[-3000:])
    if hit:
        print("VIOLATION property=%s replay=%s" % (pid, path))
        return 1
    print("not reproduced")
    return 0


if __name__ == "__main__":
    try:
        sys.exit(main(sys.argv[1:]))
    except MachineryError as e:
        print("MACHINERY-ERROR:", e, file=sys.stderr)
        sys.exit(2)

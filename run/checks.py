#!/usr/bin/env python3
"""Per-property check definitions. Each function returns an exit code."""
import os, sys, time, json, subprocess, tempfile
sys.path.insert(0, os.path.dirname(os.path.abspath(__file__)))
import orch
from orch import go_build, run_space, finish, log, MachineryError

CHECKS = {}


def check(pid):
    def deco(f):
        CHECKS[pid] = f
        return f
    return deco


# binaries: name -> (package dir under the overlay root, race?)
BINARIES = {
    "c19": ("zzverif/cmd/c19", False),
    "c19_386": ("zzverif/cmd/c19", False, "386"),  # the same harness for a 32-bit platform (int and uint are 32 bits wide there)
    "flow": ("zzverif/cmd/flow", False),
    "nf5": ("zzverif/cmd/nf5", False),
    "crash": ("zzverif/cmd/crash", False),
    "crash_386": ("zzverif/cmd/crash", False, "386"),  # the same harness for a 32-bit platform
    "sflowc": ("zzverif/cmd/sflowc", False),
    "c20": ("zzverif/cmd/c20", False),
    "cachefile": ("zzverif/cmd/cachefile", False),
    "c10": ("zzverif/cmd/c10", True),
    "c10nr": ("zzverif/cmd/c10", False),  # the same harness without the race detector (sequential spaces: cache.aging)
    "prod": ("zzverif/cmd/prod", False),
    "prod2": ("zzverif/cmd/prod", False),  # the same harness with the producer package under the scheduler (prod.two)
    "pipe": ("vflow", True),
    "pipe15": ("vflow", True),
}


# instrumented copies (tools/goinstr) that replace package files in the overlay: name -> [(package dir, [files], rename-main)]
INSTRUMENT = {
    # the producer dials through the harness's name service (a sink that moves to another address keeps its name)
    "prod": [("producer", ["rawSocket.go"], "SEAMS")],
    "prod2": [("producer", ["rawSocket.go", "producer.go"], None)],
    "c10": [("ipfix", ["memcache.go"], None), ("netflow/v9", ["memcache.go"], None)],
    # sequential use: only the environment seams (clock), no scheduling points - channel operations keep their real semantics
    "c10nr": [("ipfix", ["memcache.go", "decoder.go"], "SEAMS"), ("netflow/v9", ["memcache.go", "decoder.go"], "SEAMS")],
    # package main is rewritten completely; the decoder packages only get their sync / sync/atomic imports redirected
    # (none today: a pooled scratch buffer introduced there becomes a deterministic, explorable pool)
    "pipe": [("vflow", ["ipfix.go", "sflow.go", "netflow_v5.go", "netflow_v9.go", "vflow.go", "ipfix_unix.go", "sflow_unix.go"], "vflowMain;GetOptions=zzGetOptions,NewSFlow=zzNewSFlow,NewIPFIX=zzNewIPFIX,NewNetflowV5=zzNewNetflowV5,NewNetflowV9=zzNewNetflowV9"),
             ("sflow", "*", None), ("packet", "*", None), ("reader", "*", None), ("netflow/v5", "*", None),
             ("netflow/v9", "*-memcache.go", None), ("ipfix", "*-memcache.go-memcache_rpc.go-decoder.go-rfc5102_model.go", None),
             # the template caches read the VIRTUAL clock here too (no wall-clock dependence), their locks stay ordinary locks
             ("netflow/v9", ["memcache.go"], "SEAMS"), ("ipfix", ["memcache.go"], "SEAMS")],
    # the shutdown check also makes the template cache's lock operations scheduling points (dump vs. a worker's insert)
    "pipe15": [("vflow", ["ipfix.go", "sflow.go", "netflow_v5.go", "netflow_v9.go", "vflow.go", "ipfix_unix.go", "sflow_unix.go"], "vflowMain;GetOptions=zzGetOptions,NewSFlow=zzNewSFlow,NewIPFIX=zzNewIPFIX,NewNetflowV5=zzNewNetflowV5,NewNetflowV9=zzNewNetflowV9"),
               ("sflow", "*", None), ("packet", "*", None), ("reader", "*", None), ("netflow/v5", "*", None),
               ("netflow/v9", "*", None), ("ipfix", "*-memcache_rpc.go-decoder.go-rfc5102_model.go", None)],
}


def instrument(name):
    """Run the AST instrumenter on the CURRENT working tree files; returns overlay entries."""
    tool = os.path.join(orch.BUILD, "bin", "goinstr")
    src = os.path.join(orch.VERIF, "tools", "goinstr", "main.go")
    if not os.path.exists(tool) or os.path.getmtime(tool) < os.path.getmtime(src):
        os.makedirs(os.path.dirname(tool), exist_ok=True)
        tmp_tool = "%s.tmp.%d" % (tool, os.getpid())
        r = subprocess.run(["go", "build", "-o", tmp_tool, src], env=orch.GOENV, stdout=subprocess.PIPE, stderr=subprocess.STDOUT, text=True)
        if r.returncode != 0:
            raise MachineryError("goinstr build failed:\n" + r.stdout)
        os.replace(tmp_tool, tool)  # atomically: a concurrent run may be executing the old one
    extra = {}
    for pkg, files, rename in INSTRUMENT.get(name, []):
        if isinstance(files, str):  # "*" minus "-name" exclusions: every non-test Go file of the package in the tree
            excl = set(files.split("-")[1:])
            files = sorted(f for f in os.listdir(os.path.join(orch.REPO, pkg))
                           if f.endswith(".go") and not f.endswith("_test.go") and not f.startswith("zz_") and f not in excl and f != "doc.go")
        outd = os.path.join(orch.BUILD, "instr_%d" % os.getpid(), name, pkg)
        os.makedirs(outd, exist_ok=True)
        cmd = [tool, "-out", outd]
        if rename == "SEAMS":  # environment seams only (virtual clock ...): no additional scheduling points
            cmd += ["-seams-only"]
        elif rename:
            r_main, _, r_calls = rename.partition(";")
            cmd += ["-rename-main", r_main]
            if r_calls:
                cmd += ["-call-rename", r_calls]
        cmd += [os.path.join(orch.REPO, pkg, f) for f in files]
        r = subprocess.run(cmd, stdout=subprocess.PIPE, stderr=subprocess.STDOUT, text=True)
        if r.returncode != 0:
            raise MachineryError("instrumenter rejected %s: %s" % (pkg, r.stdout))
        for f in files:
            extra[os.path.join(orch.REPO, pkg, f)] = os.path.join(outd, f)
    return extra


_built = {}


def build(name):
    if name in _built and os.path.exists(_built[name]):
        return _built[name]
    pkg, race = BINARIES[name][:2]
    goarch = BINARIES[name][2] if len(BINARIES[name]) > 2 else None
    _built[name] = go_build(name, pkg, race=race, extra_overlay=instrument(name), goarch=goarch)
    import shutil
    shutil.rmtree(os.path.join(orch.BUILD, "instr_%d" % os.getpid()), ignore_errors=True)
    return _built[name]


@check("C19")
def c19(tier):
    t0 = time.time()
    b = build("c19")
    res = [run_space(b, "bfs", tier), run_space(b, "seq", tier), run_space(b, "wide", tier), run_space(b, "two", tier)]
    # the reader is platform independent by its statement: the same spaces on a 32-bit build (GOARCH=386 runs on this
    # kernel), where int / uint are 32 bits wide - quick depth, both tiers
    b32 = build("c19_386")
    for sp in ("bfs", "seq", "wide"):
        r = run_space(b32, sp, "quick")
        r.space += "@386"
        res.append(r)
    return finish("C19", tier, res,
                  rule="bfs: one case per buffer (length 0..9 x 2 content families, handed over with spare capacity filled with sentinels), explored to closure over (reference position, all fields of the real Reader) with all 27 operations from every state; "
                       "seq: every operation sequence of length 5 (quick) / 6 (thorough) without state merging, rooted at (buffer, first two ops); "
                       "wide: buffers of 255, 256, 257, 65535, 65536, 65537, 65600 octets x every operation sequence of length 3 (thorough 4) over the 5 fixed-width ops, len, count and read/peek with n in {0,1,2,127,128,254..257,32767,32768,65534..65537,L-1,L,L+1} (integer-width boundaries of positions, counts and arguments). The three spaces are repeated (quick depth) with the harness built for GOARCH=386, where int and uint are 32 bits wide. "
                       "two: TWO readers alive at once over different buffers (every worker has one, a decoder creates one per datagram), the second created before step t = 0..3; every 3-step sequence over (which reader, which of the 27 operations); after each step the reader operated on is checked as everywhere else and the OTHER one must still report the length and count of its own history. "
                       "Non-trivial = buffer explored (bfs) / root whose subtree contains a sequence that consumed octets (seq); distinct by content hash.",
                  assumptions=["BFS states are merged on the reference position together with a by-value rendering of every field of reader.Reader (buffer contents excluded); a field that cannot be rendered by value switches the merge off (exhaustive:false, the unmerged spaces remain)",
                               "whether returned octets are a view of the buffer or a copy is not part of the statement and not checked",
                               "negative length arguments are outside the statement ('a read of n octets')"], t0=t0)


FLOW_ASSUME = ["reference encoders/interpretation written from RFC 7011/7012 and RFC 3954 (zzverif/ref) are correct",
               "element types are taken from the information model in the tree (its agreement with the registry snapshot is C20)",
               "well-formed input only: padding shorter than the shortest record, reduced-size encoding never longer than the natural size, booleans 1/2",
               "private elements (enterprise 29305 / ids 30001-30009) are added to the exported model to reach signed and float32 interpretation"]


AGING_RULE = (" cache.aging (the cache and decoder read the clock through the time seam): announce, let T pass, use - T in {0, 1, 59..61, 299..301, 599..601, 1799..1801, 3599..3601, 7200, a day -1/0/+1 s, a week, 30 days, 400 days} "
              "x 7 orders (data / re-announcement then data / dump, T, load, data / peer lookup / T, dump, load, data / T, 96 other exporters announce, data / dump, the clock steps BACK by T, load, data) x 6 template versions x IPFIX, NetFlow v9: what is looked up is what was announced, however old.")


def aging_space(race=False):
    tmp = tempfile.mkdtemp(prefix="aging_", dir=orch.BUILD)
    try:
        return run_space(build("c10" if race else "c10nr"), "cache.aging", "quick", env={"VERIF_TMP": tmp})
    finally:
        import shutil
        shutil.rmtree(tmp, ignore_errors=True)


def flow_records(pid, proto, tier):
    t0 = time.time()
    b = build("flow")
    names = ["tpl2", "tpl3s", "pad8", "twosets", "allelems", "loaded", "counts", "typeinfo", "valsweep"]
    if tier == "thorough":
        names.append("tpl3")
    res = [run_space(b, proto + "." + n, tier) for n in names]
    res.append(aging_space())
    return finish(pid, tier, res,
                  rule="cases are generated from an abstract description: template of 1..3 field kinds over the kind alphabet (one element per abstract type x encoding class: natural, reduced-size, fixed string/octets, variable length with 1- and 3-octet prefixes, enterprise) x scope split 0..n x 1..3 records x padding 0..3 (pad8: 4..7) x 4 value patterns x template in an earlier / the same message; twosets: two templates and two data sets in either order; allelems: every model element as a one-field template in each encoding class; loaded: the same sweep after the model has been replaced through the real ipfix.LoadExtElements from a generated ipfix.elements file (every element, every fifth re-typed, plus the private ones) - decoding must follow the model in force; counts: N records in a set / N fields in a template / N data sets in a message / N templates in one template set / (IPFIX) N records whose variable-length value differs in length from record to record / a fixed-length field of N octets / the template id N itself (256 .. 65535), N in {1..4, 7..9, 15..18, 31..33, 63..65, 100, 127..129, 255..257, 511..513, 1000, 1023..1025, 4000} (thorough: every N up to 1100 and around 2048, 4096) as far as 65000 octets allow; typeinfo: for every element of the model an RFC 5610 type-information option record (with and without the enterprise-number scope) that claims another data type for it, then a template using the element from the same / another exporter - the record decodes as ordinary option data, the element is still decoded by the collector's model, the model entry is unchanged; valsweep: every value of the one- and two-octet elements (quick: one element per such type and the well-known ports / AS numbers / protocol / TOS / masks; thorough: every such element of the model)." + AGING_RULE + " "
                       "Non-trivial = every executed case (each carries >=1 record); distinct = distinct wire octets (FNV-64 of the message and of the announcing messages).",
                  assumptions=FLOW_ASSUME, t0=t0)


@check("C03")
def c03(tier):
    return flow_records("C03", "ipfix", tier)


@check("C06")
def c06(tier):
    return flow_records("C06", "v9", tier)


@check("C08")
def c08(tier):
    t0 = time.time()
    b = build("nf5")
    res = [run_space(b, "v5.rec", tier), run_space(b, "v5.pairs", tier), run_space(b, "v5.sweep", tier)]
    d, env = sched_env("c08")
    res.append(run_space(build("pipe"), "pipe.c08", tier, env=env, hang_s=240))
    import shutil
    shutil.rmtree(d, ignore_errors=True)
    return finish("C08", tier, res,
                  rule="v5.rec: version {5,0,9,10,0x0500} x count {1,2,29,30,0,31,65535} x datagram length {0..24, exact-48, exact-1, exact, exact+1, exact+48} x 61 content fills (position-unique, all-ones, all-zero, and per header/record field an all-ones one-hot and a low-bit pattern); v5.pairs: all ordered pairs of one-hot record fields in either record of a 2-flow packet; v5.sweep: EVERY value of every 8- and 16-bit field of the header and of either record (a value singled out for special treatment shows only when that very value is tried); pipe.c08: the real v5 receive loop and two workers on three datagrams with different addresses and flow counts under the controlled scheduler, every schedule within deviation bound 1 (thorough 3), each published document compared with its own datagram's expected one, race detector as per-schedule oracle (the decode and JSON rendering must not share state between workers). "
                       "Non-trivial = packet with a complete 24-octet header; distinct = distinct wire octets.",
                  assumptions=["field offsets/widths of the reference are transcribed from the Cisco NetFlow v5 export format", "JSON key names are those of the published format (the Go field names)"], t0=t0)


@check("C09")
def c09(tier):
    t0 = time.time()
    b = build("flow")
    res = [run_space(b, "ipfix.perturb", tier), run_space(b, "v9.perturb", tier), run_space(b, "ipfix.many", tier), run_space(b, "v9.many", tier)]
    return finish("C09", tier, res,
                  rule="5 base messages (2-3 data sets over 4 templates incl. variable-length fields, an options template, and octet-array contents that look like a set header of a known template) x insertion position 0..n x one undecodable set: every reserved id (IPFIX 4..255, v9 2..255), unknown template ids {256,999,65535}, data sets of four templates naming an element absent from the model (as first field, as scope field, in the middle of a record, as an option field after a decodable scope), bodies of 0..9 octets, a body that is itself a valid set, and such inner sets followed by further octets; templates pre-announced or in-message; "
                       "then every truncation offset 0..len of every base and perturbed message (counter 'truncations'); many: the same undecodable set (reserved id / unknown template / absent element / empty body / a mixture) inserted N times in a row at every position, N in {2..9, 15..18, 31..33, 63..65, 100, 127..129, 255..257, 1000} (thorough: every N up to 300, 1000, 4000). Quick: every id with 5 bodies and 7 boundary ids with all 13 bodies; thorough: all ids x all bodies. Non-trivial = every case; distinct = wire octets x template placement.",
                  assumptions=FLOW_ASSUME + ["IPFIX set ids 0 and 1 ('not used', RFC 7011 3.3.2) are not counted among the reserved ids",
                                             "the records of the complete datagram used by the truncation oracle are the implementation's own decode of it (differential), its correctness is C03/C06"], t0=t0)


CRASH_SPACES = ["ipfix.grammar", "ipfix.mutate", "ipfix.history", "ipfix.dense", "v9.grammar", "v9.mutate", "v9.history", "v9.dense", "v5.grammar", "v5.mutate",
                "sflow.grec", "sflow.graw", "sflow.ghdr", "sflow.mutate", "sflow.dense"]
CRASH_RULE = ("per protocol: grammar spaces (every set id / length-field mode / body from a boundary alphabet incl. ~500 template-record bodies with field count, scope count, element id and field length in {0,1,2,4,65535,...}; two-set datagrams; template+data in one datagram; sFlow: every record type x declared length 0..32 and extremes x actual length, raw-header protocol x header length 0..64,1498..1503,2^31,2^32-1 x ethertype (incl. single and stacked VLAN tags 0x8100 / 0x88a8 / 0x9100, up to three deep) x IHL x L4; datagram header fields x sample count x tag x length), "
              "dense spaces: datagrams up to the UDP maximum made of the smallest units (64..16000 sets of 4..8 octets of every kind, 64000 one-octet records, thousands of empty sFlow samples / records), "
              "mutation closure of well-formed seeds (every truncation, every single-octet substitution with {00,01,7f,80,ff,v+1,v-1}; thorough: every pair of positions in the first 64 octets), "
              "and template-cache histories (explicit-state: every pair of template announcements for two ids from the adversarial template alphabet = every cache state over those ids, then every data datagram of the data alphabet from every state; 3 exporter address forms). "
              "Non-trivial = non-empty datagram (grammar/mutation) / distinct canonical cache state (history); distinct by FNV-64 of the octets / of the canonical state. history: besides the data datagrams, after every history ONE datagram holding data for an id, a template set re-defining that id (every template body of the alphabet for id 256, thorough also 300) and data for the id again.")


def crash_check(pid, tier, alloc):
    t0 = time.time()
    b = build("crash")
    args = ["-alloc"] if alloc else []
    res = []
    for sp in CRASH_SPACES:
        r = run_space(b, sp, tier, hang_s=15, as_bytes=3 << 30, args=args)
        if sp.endswith(".history"):
            r.states = r.nontrivial
        res.append(r)
    assume = ["decode + JSON encoding is called exactly as the protocol's worker does (Decoder.Decode then JSONMarshal / json.Marshal); the worker loop itself is covered by C12/C13",
              "small-scope: datagrams up to a few hundred octets, plus the dense spaces (up to 65000 octets of minimal units) and one 65507-octet NetFlow v5 case; templates for two ids",
              "a panic is caught in-process; a fatal error, an out-of-memory kill (RLIMIT_AS 3 GiB) or 15 s without progress on a microsecond-scale case is re-run alone twice before it is reported"]
    if not alloc:
        # 32-bit platforms (int is 32 bits wide: length and count fields above 2^31 become negative there): the grammar
        # spaces of the protocols with 32-bit length fields on a GOARCH=386 build; the flow grammars in the thorough tier
        b32 = build("crash_386")
        for sp in ["sflow.grec", "sflow.graw", "sflow.ghdr", "sflow.dense", "v5.grammar"] + (["ipfix.grammar", "v9.grammar", "ipfix.dense", "v9.dense"] if tier == "thorough" else []):
            r = run_space(b32, sp, "quick", hang_s=15)
            r.space += "@386"
            res.append(r)
        # "never terminates the process" with the collector's own concurrency: fatal errors such as concurrent
        # map writes exist only with two workers (the sequential sweeps above cannot see them)
        d, env = sched_env("c01")
        res.append(run_space(build("pipe"), "pipe.c01", tier, env=env, hang_s=240))
        import shutil
        shutil.rmtree(d, ignore_errors=True)
        assume += PIPE_ASSUME
    if alloc:
        for sp in ("ipfix.scaling", "v9.scaling"):
            res.append(run_space(b, sp, tier, hang_s=120))
        assume += ["allocation = runtime.MemStats.TotalAlloc delta around one decode+encode in a single-goroutine worker (exact: ReadMemStats flushes allocation caches); bound 64 KiB + 1024 B per received octet (largest legitimate case measured: 203 B/octet, 78 KB); a watchdog aborts a decode that exceeds 64x the bound",
                   "records <= octets is checked on every case",
                   "scaling spaces: cost of one datagram = CPU time of the decoding thread (getrusage RUSAGE_THREAD, best of three rounds of a calibrated number of repetitions - at least 40 ms for the empty cache), compared between an empty template cache and one holding 50000 / 200000 templates of other exporters; more than 40x + 100 ms is a violation (the only time-based oracle; thread CPU time, not wall-clock time, and a ratio of two measurements taken back to back)"]
    rule = CRASH_RULE
    if not alloc:
        rule += " The sFlow and NetFlow v5 grammar spaces (thorough: also the IPFIX / v9 ones) are repeated on a GOARCH=386 build (int is 32 bits wide there)."
        rule += " pipe.c01: per protocol the real receive loop and TWO workers under the controlled scheduler (deviation bound 1, thorough 2) on good, truncated and wrong-version datagrams of two exporters, cached templates used by both workers, an unknown template and an in-band announcement, templates loaded from a cache file: no panic, no fatal error, no race report (a data race on the template map is a process-terminating fatal error in Go)."
    return finish(pid, tier, res, rule=rule, assumptions=assume, t0=t0)


@check("C01")
def c01(tier):
    return crash_check("C01", tier, False)


@check("C02")
def c02(tier):
    return crash_check("C02", tier, True)


SF_ASSUME = ["reference encoder/expected tree written from the sFlow v5 specification and RFC 791/8200/9293/768/792 (zzverif/ref/sflowgen.go)",
             "JSON key names are those of the published format; ColTime (wall clock) is removed before comparison",
             "well-formed input only: sampled header complete up to the transport header, ethertype IPv4/IPv6 (optionally 802.1Q tagged), L4 TCP/UDP/ICMP(v6), no duplicate record type within a sample (the decoded structure is a map), TCP reserved bits zero",
             "field semantics where the published struct is narrower than the wire: SourceID = source type octet; ICMP RestHeader = sampled octets after the checksum; TCP Flags = 9 bits"]


@check("C07")
def c07(tier):
    t0 = time.time()
    b = build("sflowc")
    res = [run_space(b, sp, tier) for sp in ["sflow.seq", "sflow.flowrec", "sflow.counterrec", "sflow.onehot", "sflow.frames", "sflow.hdrlen", "sflow.counts", "sflow.sweep", "sflow.magic"]]
    return finish("C07", tier, res,
                  rule="seq: every sample sequence of length 0..3 over a 14-sample alphabet (flow samples with raw/ext-switch/ext-router/unknown records, counter samples with all six counter blocks and unknown records, unknown sample formats 3/4/5, a vendor sample) x IPv4/IPv6 agent; flowrec/counterrec: every ordered selection of <=3 distinct record types (flowrec x all 27 frame shapes); onehot: every field of every record, sample header and datagram header all-ones alone; frames: 27 frame shapes (Ethernet/802.1Q/raw IPv4/raw IPv6 x IPv4, IPv4+options, IPv6 x TCP/UDP/ICMP) x every L2/L3/L4 field all-ones alone; hdrlen: six frame shapes x every sampled header length up to 1500 (XDR padding 0..3); sweep: every value of the 16-bit fields of a sampled frame (IPv4 total length and id, IPv6 payload length, ports, 802.1Q tag) and of the 8-bit ones (TOS, TTL, hop limit, ICMP type / code) on six (thorough: all 27) frame shapes; counts: N samples in one datagram (the same sample of the alphabet repeated, and cycling through the alphabet) and N unsupported records in front of a supported one, N in {1..4, 7..9, 15..18, 31..33, 63..65, 100, 127..129, 255..257, 400} (thorough: every N up to 420) as far as 60000 octets allow; magic: every 32-bit field of the datagram header, the sample headers, the raw-header record and the standard records holding, alone, each of 15 values with a meaning of their own (0x3FFFFFFF - the internal / no interface -, its neighbours, the format bits of an interface word, sign and width boundaries). Non-trivial = every case; distinct = wire octets.",
                  assumptions=SF_ASSUME, t0=t0)


@check("C18")
def c18(tier):
    t0 = time.time()
    b = build("sflowc")
    res = [run_space(b, "sflow.filter", tier)]
    bp = build("pipe")
    d, env = sched_env("c18")
    ro = run_space(bp, "opts.filter", tier, env=env)
    ro.viol = [v for v in ro.viol if "cmd-over-file" not in v["sig"]]  # precedence is C17's
    res.append(ro)
    res.append(run_space(bp, "pipe.c18", tier, env=env, hang_s=240))
    import shutil
    shutil.rmtree(d, ignore_errors=True)
    return finish("C18", tier, res,
                  rule="every sample sequence of length 0..3 over {flow{raw}, flow{sw}, flow{}, counter{gen}, counter{vg,vlan,proc}, unknown3, unknown4, vendor} x 28 filter lists (incl. numbers that are record formats inside samples: 1001, 1002, 4, 5, and lists of 16, 17, 33, 64, 257 entries whose last entry is the type to remove) ([], [1], [2], [3], [1,2], [2,3], [1,3], [1,2,3], [0], [7], [vendor tag], [2^32-1]); oracle: reference tree without the listed types AND the implementation's own unfiltered decode with exactly the listed types removed. opts.filter: every comma list of length 1..3 over {0,1,2,3,2^32-1,2^32,-1,x,empty} through the real flag parser and the YAML list form through the real option loading. pipe.c18: the real sFlow receive loop with two workers and three-entry filters under the controlled scheduler (deviation bound 1, thorough 3): the filter list is one slice shared by all workers - published = standalone filtered decode, race detector per schedule. Non-trivial = every case.",
                  assumptions=SF_ASSUME + PIPE_ASSUME, t0=t0)


@check("C05")
def c05(tier):
    t0 = time.time()
    bf, b5, bs = build("flow"), build("nf5"), build("sflowc")
    res = []
    for p in ("ipfix", "v9"):
        for sp in ("json.pos", "json.pairs", "json.shape", "json.mixed", "json.counts", "json.allelems") + (("json.triples",) if tier == "thorough" else ()):
            res.append(run_space(bf, p + "." + sp, tier))
    r5 = run_space(b5, "v5.rec", tier)
    r5.viol = [v for v in r5.viol if v["sig"].startswith("v5:json")]  # field mapping itself is C08's
    res.append(r5)
    for sp in ("sflow.seq", "sflow.onehot", "sflow.frames"):
        res.append(run_space(bs, sp, tier))
    return finish("C05", tier, res,
                  rule="IPFIX/v9: a value alphabet aimed at the encoder (strings with each of the 32 control characters, quote, backslash, slash, DEL, U+2028, 2/3/4-byte UTF-8, four kinds of invalid UTF-8, empty, HTML, 300 octets, JSON-looking; float32/64: +-0, +-Inf, quiet/signalling NaN, min/max denormal, max finite, 1e21, 1e-7, 0.1; booleans from octets 0,1,2,255; every integer width at 0/1/max/min; MAC, IPv4, IPv6 (::, ::1, v4-mapped, v4-compatible, all-ones); octet arrays of 0..3; reduced-size encodings; enterprise numbers 1, 29305, 2^32-1); json.allelems: every element of the information model (all ids and enterprise numbers, incl. ids above 30000) as a one-field template in front of / behind an ordinary field; json.counts: size instead of shape - N records, N fields per record, one string / octet-array value of L octets, N and L around every power of two from 2 to 32768 and 1000, 60000 (as far as 65000 octets allow); "
                       "placed first/middle/last/alone in a record, as scope or option field, from 4 exporter address forms; every ordered PAIR of values in one record; 1..3 sets x 1..3 records x 1..3 fields; data sets of two templates with different field counts interleaved in one message (AB, BA, ABA, BAB). v5: the C08 space, JSON oracle only. sFlow: the C07 sequence, one-hot and frame spaces (published JSON compared with the reference tree). "
                       "Oracle: json.Valid, valid UTF-8, single document, exact key sets, integers as exact decimals, floats bit-exact after ParseFloat (non-finite: any string naming the class), strings equal up to U+FFFD substitution, addresses canonical and parsing back to the same octets, 0x-hex octet arrays. Non-trivial = every case; distinct = wire octets x exporter.",
                  assumptions=FLOW_ASSUME + SF_ASSUME + ["a JSONMarshal error on a decodable message is reported here too (nothing valid can be published for it)"], t0=t0)


@check("C20")
def c20(tier):
    t0 = time.time()
    b = build("c20")
    env = {"VERIF_REPO": orch.REPO, "VERIF_DIR": orch.VERIF}
    res = [run_space(b, "model.entries", tier, env=env), run_space(b, "model.decode", tier, env=env)]
    res.append(run_space(build("flow"), "ipfix.typeinfo", tier))
    return finish("C20", tier, res,
                  rule="model.entries: one case per element of the union of the built-in table, the table produced by LoadExtElements on scripts/ipfix.elements and the registry snapshot (402): present in all, same name and type, FieldID = key id, type NAME (read from the Go source text and from the YAML) recognised and equal to the snapshot, table unchanged when the file is absent and when it is present but unusable (a directory in its place, not YAML, YAML of another shape, the shipped file cut short). "
                       "model.decode: every element x {natural/fixed length, 1 octet, variable length} x 3 value patterns decoded under both tables (identical) and against the reference interpretation of the snapshot type. ipfix.typeinfo: the model also stays what it is at RUN TIME - for every element an RFC 5610 type-information record claiming another data type is decoded (as ordinary option data), the element is still decoded by the model and its entry is unchanged. Non-trivial = every element / case.",
                  assumptions=["the registry snapshot /verif/models/ipfix_registry.json was taken from the pinned tree's shipped file (the IANA registry is not reachable offline): drift and disagreement are detected, a transcription error common to both tables and the snapshot is not"], t0=t0)


@check("C04")
def c04(tier):
    t0 = time.time()
    b = build("flow")
    res = [run_space(b, "cache.bfs", tier, hang_s=300), run_space(b, "cache.capacity", tier, hang_s=300), aging_space()]
    return finish("C04", tier, res,
                  rule="explicit-state BFS to closure, IPFIX and NetFlow v9: state = reference map over 6 keys (A/256, A/257, the same IPv4 in 4-byte form, an IPv6 exporter, and two exporters whose addr||id collide under 32-bit FNV-1; thorough adds an IPv6 colliding pair) -> one of 4 definitions (two element lists of equal length and type width, one with the same element but another field length, one with two fields) or none (thorough: 8 keys incl. an IPv6 colliding pair x 3 definitions, and 6 keys x 5 definitions); events per key: announce alone / template then data in one message / data then template in one message / data / peer IRPC.Get / peer-fetched insert; "
                       "the reference model is searched on its own to enumerate every state with a shortest history (announcing event kinds rotate); each state is a case: successor = replay of that history on a fresh real cache + the event; after every transition every key is probed with a data message (decoded under exactly ref[k], or 'unknown template' with no records) and the canonical cache content must be a function of the reference state. Non-trivial = every reference state; distinct by state. Mode 'derived-addr': exporters that coincide in part of their address (two IPv6 exporters with the same low 32 bits, an IPv6 and an IPv4 exporter with the same low 32 bits). Every message of a history carries lower header times and sequence numbers than the one before. Mode 'options': three keys x three options templates that differ only in the scope field / only in the option field / in both. Mode 'undecodable': definitions naming an element absent from the model (data for them yields nothing) superseding and superseded by a decodable one. cache.capacity: one exporter announces, N other exporter/id pairs announce afterwards (N in {1, 31..33, 1000, 4095..4097, 40000, 140000}; thorough up to 600000; with the same and with other template ids), then the first exporter's data and that of every 97th other must decode under their own templates - the statement has no bound on how many exporters there are. Event 'ann-cut' from every state: an announcement whose datagram ends inside the template's field list is not a definition - the reference state, the probes and the cache content must not change." + AGING_RULE,
                  assumptions=["states are merged on the reference map; the implementation's canonical cache content (read from the exported structure, timestamps dropped) is checked to be a function of it, which is what makes the merge sound",
                               "the FNV-colliding exporter pairs were found offline by a birthday search and are recomputed with hash/fnv at start-up",
                               "peer-fetched insert uses the cache's private insert through a verif-tagged export file injected by the overlay"], t0=t0)


def observe_write_model(binary, proto):
    """Run the real Dump under strace and derive which images of the cache file a crash can leave."""
    import tempfile, shutil, re
    d = tempfile.mkdtemp(prefix="c11_", dir=orch.BUILD)
    target = os.path.join(d, "cache.file")
    out = os.path.join(d, "strace.out")
    model = None
    try:
        r = subprocess.run(["strace", "-f", "-o", out, "-e", "trace=openat,open,creat,write,pwrite64,rename,renameat,renameat2,fsync,fdatasync,ftruncate,close",
                            binary, "-dumponly", target, proto], env=dict(orch.GOENV, VERIF_TMP=d), stdout=subprocess.PIPE, stderr=subprocess.PIPE, timeout=60)
        if r.returncode == 0 and os.path.exists(out):
            lines = open(out, errors="replace").read().splitlines()
            fds, direct, trunc, writes, fsynced, renamed = {}, False, False, 0, False, False
            tmpfd_synced = set()
            for l in lines:
                m = re.search(r'open(?:at)?\((?:AT_FDCWD, )?"([^"]+)", ([A-Z_|]+)[^)]*\)\s+= (\d+)', l)
                if m:
                    fds[m.group(3)] = (m.group(1), m.group(2))
                    if m.group(1) == target:
                        direct = True
                        trunc = "O_TRUNC" in m.group(2)
                    continue
                m = re.search(r'(?:write|pwrite64)\((\d+),', l)
                if m and m.group(1) in fds and (fds[m.group(1)][0] == target or fds[m.group(1)][0].startswith(d)) and "cache" in fds[m.group(1)][0]:
                    writes += 1
                    continue
                m = re.search(r'(?:fsync|fdatasync)\((\d+)\)', l)
                if m and m.group(1) in fds:
                    tmpfd_synced.add(fds[m.group(1)][0])
                    if fds[m.group(1)][0] == target:
                        fsynced = True
                    continue
                m = re.search(r'rename(?:at2?)?\(.*"([^"]+)"[^"]*"([^"]+)"', l)
                if m and m.group(2) == target:
                    renamed = True
                    fsynced = m.group(1) in tmpfd_synced
            if renamed and fsynced:
                kinds, how = ["old", "full"], "temp file + fsync + rename"
            elif renamed:
                kinds, how = ["old", "empty", "prefix", "zerofill", "full"], "temp file + rename WITHOUT fsync (delayed allocation can expose an empty or partial new file)"
            elif direct:
                kinds, how = ["old", "empty", "prefix", "zerofill", "full"], "openat(%s) + %d write(s) + close on the target itself%s" % ("O_TRUNC" if trunc else "no O_TRUNC", writes, ", fsync" if fsynced else ", no fsync, no rename")
            else:
                kinds, how = None, None
            if kinds:
                model = {"kinds": kinds, "source": "strace of the real Dump: " + how}
    except Exception as e:
        log("[C11] strace unavailable: %s" % e)
    shutil.rmtree(d, ignore_errors=True)
    return model


@check("C11")
def c11(tier):
    t0 = time.time()
    b = build("cachefile")
    res = []
    models = {}
    os.makedirs(orch.BUILD, exist_ok=True)
    tmp = tempfile.mkdtemp(prefix="c11tmp_", dir=orch.BUILD)  # per run: another tier / a mutant run may be going on at the same time
    for proto in ("ipfix", "v9"):
        wm = observe_write_model(b, proto)
        models[proto] = wm or {"kinds": ["old", "empty", "prefix", "zerofill", "full"], "source": "ASSUMED truncate+write (strace failed)"}
        env = {"VERIF_TMP": tmp, "VERIF_WRITE_MODEL": json.dumps(models[proto])}
        for sp in ("roundtrip", "struct", "crash", "bytes"):
            r = run_space(b, proto + "." + sp, tier, env=env, hang_s=60)
            res.append(r)
    import shutil
    shutil.rmtree(tmp, ignore_errors=True)
    # the cache file on ANOTHER FILESYSTEM than the system's temporary directory (a tmpfs): saving must not depend on
    # where temporary files live (a "write to a temp file, then rename" that crosses filesystems fails with EXDEV)
    other_fs = None
    try:
        if os.path.isdir("/dev/shm") and os.stat("/dev/shm").st_dev != os.stat(tempfile.gettempdir()).st_dev and os.access("/dev/shm", os.W_OK):
            other_fs = tempfile.mkdtemp(prefix="verif_c11_", dir="/dev/shm")
    except OSError:
        other_fs = None
    if other_fs:
        try:
            for proto in ("ipfix", "v9"):
                r = run_space(b, proto + ".roundtrip", tier, env={"VERIF_TMP": other_fs, "VERIF_WRITE_MODEL": json.dumps(models[proto])}, hang_s=60)
                r.space += "@other-filesystem"
                res.append(r)
        finally:
            shutil.rmtree(other_fs, ignore_errors=True)
    res.append(aging_space())
    return finish("C11", tier, res,
                  rule="per protocol: roundtrip: 7 (thorough 41) cache contents incl. one of 7000 templates (a file of several MiB) reached by decoding announcements (0..240 templates; plain/options/enterprise/variable-length; IPv4-mapped, 4-byte and IPv6 exporters) dumped, loaded, every key probed with a well-formed data message and compared with the live cache, second generation identical; the same content saved by ANOTHER process and loaded by this one (a restart is never the same process); a smaller cache saved over a longer file; the whole round trip repeated with the cache file on another filesystem than the temporary directory (tmpfs /dev/shm, where present); a run that starts from the file, sees a third of its templates re-announced with another definition (no new key) and saves; "
                       "crash: every image the observed write history of Dump can leave (old file, empty, EVERY byte prefix, prefixes zero-filled to 512/4096-octet boundaries and to full length, complete) - loaded cache must be a subset of the saved one and usable; "
                       "bytes: every position x 13 substitution octets, every single-octet deletion and duplication; struct: 28 Cache shapes x 11 ShardNo forms x 2 key orders + absent/empty/directory/non-JSON files. Usable = announce+data succeeds for 96 probe exporters;" + AGING_RULE + " after every crash image and every byte corruption the loaded entries are also USED: data for every exporter/template of the saved content is decoded (the decoder must cope with whatever the altered file made of them). Non-trivial = every case; distinct = file octets.",
                  assumptions=["write history of Dump: " + models["ipfix"]["source"],
                               "crash model: a crash leaves a byte prefix of an unsynced write, possibly with zero-filled blocks; no reordering across files",
                               "for byte/structure corruptions only 'never crashes' and 'usable' are demanded (a corrupted but valid document has no saved cache to be a subset of)",
                               "an unreadable file cannot be produced as root; absent/directory stand in for it"],
                  extra_cov={"write_model": models}, t0=t0)


def sched_env(tag):
    os.makedirs(orch.BUILD, exist_ok=True)
    d = tempfile.mkdtemp(prefix="sched_%s_" % tag, dir=orch.BUILD)  # per run: another tier of the same check may be going on at the same time
    return d, {"GORACE": "log_path=%s/race halt_on_error=0 exitcode=0" % d, "VERIF_TMP": d, "GOMAXPROCS": "4", "VERIF_SCHED": "1"}


SCHED_ASSUME = ["scheduling points: every lock/unlock, channel operation, select, atomic, pool Get/Put, go statement, sleep, socket read; code between two points runs atomically (sound for race-free code; unsynchronized accesses are caught by the race detector in the same executions)",
                "the baton is passed by raw futex calls inside //go:norace functions, so the race detector's happens-before graph holds only the program's own edges (shims perform the real sync operation after the point)",
                "determinism gate: the first 12 schedules of every scenario are replayed from their recorded choices and must observe the same log; a replay divergence aborts the check with exit 2"]


@check("C10")
def c10(tier):
    t0 = time.time()
    b = build("c10")
    d, env = sched_env("c10")
    res = [run_space(b, "cache.sched", tier, env=env, hang_s=120)]
    res.append(run_space(b, "cache.aging", tier, env=env))
    import shutil
    shutil.rmtree(d, ignore_errors=True)
    r = res[0]
    return finish("C10", tier, res,
                  rule="56 scenarios (18 three-thread combinations x {empty cache, template pre-announced}, IPFIX and NetFlow v9 where applicable) of: decoder announcing v1 then v2 for key k, decoder sending data for k twice, decoder announcing for another exporter in the same shard (a key that is text-ambiguous with k) / another shard, second announcer, Dump + load back, peer IRPC.Get x2, peer-fetched insert, one message announcing two templates in one set, threads that first let a virtual second pass (entries older than 'now'), a template with a variable-length field; "
                       "all schedules with at most 3 (thorough 4) deviations from the default scheduler, depth-first. Per execution: no panic, no race report, call/return history linearizable w.r.t. a per-key register (brute force over all orders consistent with real time), every lookup returns none or a complete announced template of that key, every dump loads back as complete announced templates. "
                       "states = executions (complete schedules), transitions = scheduling steps; non-trivial = distinct observation logs per scenario." + AGING_RULE,
                  assumptions=SCHED_ASSUME + ["3 threads, <=2 operations each; template versions have equal record length and different field lists so the version used is visible"],
                  extra_cov={"executions": r.extra.get("executions", 0), "distinct_observation_logs": r.extra.get("distinct_observation_logs", 0), "deviation_bound": 4 if tier == "thorough" else 3}, t0=t0)


PIPE_ASSUME = SCHED_ASSUME + ["the real run() receive loop, the workers it spawns and their helper goroutines run as scheduler threads; sockets, clock, pools and select choices are environment seams (tools/goinstr rewrites the package's own files mechanically on every run)",
                              "package-level queues are re-created per execution by the harness (capacity 1000 as in production); producer, dynamic workers, RPC and stats HTTP are configured off",
                              "deviation = any departure from the default scheduler (run new goroutines at their parent's next point, keep the current thread while enabled, else lowest id) or from the default environment answer (pool: most recently put buffer; select: first ready case)"]


def pipe_check(pid, space, tier, rule, extra_assume, binary_runs=None):
    t0 = time.time()
    b = build("pipe")
    d, env = sched_env(pid.lower())
    res = [run_space(b, space, tier, env=env, hang_s=180)]
    import shutil
    shutil.rmtree(d, ignore_errors=True)
    r = res[0]
    extra_viol, okruns, nruns = None, None, 0
    if binary_runs:
        okruns, nruns, fails = binary_runs()
        extra_viol = [{"t": "viol", "space": "binary", "idx": i, "sig": sig, "msg": msg, "case": {"kind": "real binary run"}} for i, (sig, msg) in enumerate(fails)]
        rule += " Trace validation: %d datagram sequences of the explored classes sent to the shipped binary on loopback (all four protocols at once, TCP sink behind the rawSocket producer): UDPCount / DecodedCount of its /flow API and the number of lines at the sink as the explored model says." % nruns
    cov = {"executions": r.extra.get("executions", 0), "executions_by_deviations": {k: v for k, v in r.extra.items() if k.startswith("executions_with")}}
    if binary_runs:
        cov.update({"binary_runs": nruns, "binary_runs_ok": okruns})
    return finish(pid, tier, res, rule=rule, assumptions=PIPE_ASSUME + extra_assume, extra_cov=cov,
                  traces_validated=(r.extra.get("executions", 0) + okruns) if binary_runs else None,  # every explored execution runs the real code; plus the binary runs
                  extra_viol=extra_viol, t0=t0)


@check("C12")
def c12(tier):
    return pipe_check("C12", "pipe.c12", tier,
                      "per pipeline (ipfix, netflow9, netflow5, sflow): three datagrams of different sizes from two exporters in 3 arrival orders with 1 and 2 workers (quick: 3 orders x 1 worker + 1 order x 2 workers), plus for ipfix/netflow9 an in-band template followed by its data; every schedule with at most 2 (thorough 3) deviations incl. pool Get answers (most recent / fresh / oldest buffer). "
                      "Oracle at quiescence: the multiset of payloads taken from the real message-queue channel equals, byte for byte, the standalone decode+marshal of each record-bearing datagram (sFlow modulo ColTime); no race report. states = executions, transitions = scheduling steps, non-trivial = distinct (scenario, outcome).",
                      ["templates are preloaded from a cache file so that each datagram's standalone output is schedule-independent (the in-band variant only checks 'no duplicate, nothing foreign')"])


@check("C13")
def c13(tier):
    return pipe_check("C13", "pipe.c13", tier,
                      "per pipeline: every sequence of length 1..2 (thorough 1..3) over the datagram classes {decodable data, wrong version, truncated, template-only, unknown-template data | count 0 (v5) | only-unknown-samples, (sFlow) all samples filtered} plus two chosen triples, with 1 and 2 workers; every schedule with at most 1 deviation (2 for single datagrams; thorough 2 everywhere). "
                      "Oracle at quiescence: UDPCount = datagrams delivered, DecodedCount = datagrams the protocol's decoder accepts, exactly one payload per record-bearing datagram and none otherwise, no payload twice, nothing left unread.",
                      ["'decodes successfully' is taken as: the protocol's decoder returns a message (for sFlow: decodes and has a sample left) - the check pins once-ness, not that definition", "the outgoing queue (capacity 1000) never fills with <=3 datagrams"],
                      binary_runs=binary_pipeline_runs)


def binary_pipeline_runs():
    """Trace validation for C13: datagram sequences of the explored classes sent to the shipped binary; the
    counters of its /flow API and the lines at a TCP sink behind the rawSocket producer must account for them."""
    import e2e, tempfile, shutil
    binary = e2e.build_real()
    fields = [(1, 8), (2, 8)]
    tpl_i = e2e.ipfix_msg([e2e.ipfix_template_set(300, fields)])
    tpl_9 = e2e.v9_msg([e2e.v9_template_set(300, fields)])
    good = {"ipfix": lambda i: e2e.ipfix_msg([e2e.data_set(300, bytes(range(i, i + 16)))], seq=i + 2),
            "netflow9": lambda i: e2e.v9_msg([e2e.data_set(300, bytes(range(i, i + 16)))], seq=i + 2),
            "netflow5": lambda i: e2e.v5_msg(1 + i % 3),
            "sflow": lambda i: e2e.sflow_counter_msg()}
    key = {"ipfix": "IPFIX", "netflow9": "NetflowV9", "netflow5": "NetflowV5", "sflow": "SFlow"}
    seqs = [["good", "good", "good"], ["wrong-version", "good", "truncated", "good"], ["truncated", "wrong-version"], ["good", "unknown", "good"]]
    fails, ok = [], 0
    for si, sq in enumerate(seqs):
        d = tempfile.mkdtemp(prefix="c13e2e_", dir=orch.BUILD)
        sink = e2e.Sink()
        col = None
        try:
            col, up = e2e.start(binary, d, sink=sink)
            if not up:
                fails.append(("binary:did-not-start", "sequence %d: %s" % (si, col.output()[-400:])))
                continue
            col.send("ipfix", tpl_i)
            col.send("netflow9", tpl_9)
            # decoded, not merely received: the data datagrams below may go to the other worker
            col.wait_count("IPFIX", 1, field="DecodedCount")
            col.wait_count("NetflowV9", 1, field="DecodedCount")
            want = {}
            for proto in ("ipfix", "netflow9", "netflow5", "sflow"):
                sent = dec = pub = 0
                for i, cls in enumerate(sq):
                    g = good[proto](i)
                    if cls == "good":
                        dg, dec, pub = g, dec + 1, pub + 1
                    elif cls == "wrong-version":
                        dg = bytes([g[0], g[1] ^ 0x40]) + g[2:] if proto != "sflow" else g[:3] + bytes([g[3] ^ 0x40]) + g[4:]
                    elif cls == "truncated":
                        dg = g[:len(g) - 3] if proto != "netflow5" else g[:40]
                    else:  # unknown template (flow protocols only; the others get a good one)
                        if proto == "ipfix":
                            dg = e2e.ipfix_msg([e2e.data_set(999, bytes(8))], seq=50 + i)
                        elif proto == "netflow9":
                            dg = e2e.v9_msg([e2e.data_set(999, bytes(8))], seq=50 + i)
                        else:
                            dg, pub = g, pub + 1
                        dec += 1
                    col.send(proto, dg)
                    sent += 1
                want[proto] = (sent, dec, pub)
            tot_pub = sum(w[2] for w in want.values())
            st = None
            for proto, (sent, dec, pub) in want.items():
                extra = 1 if proto in ("ipfix", "netflow9") else 0
                st = col.wait_count(key[proto], sent + extra)
            t0 = time.time()
            while time.time() - t0 < 60 and len(sink.snapshot()) < tot_pub:
                time.sleep(0.05)
            time.sleep(0.3)
            st = col.stats()
            if st is None:
                fails.append(("binary:stats-unreachable", "sequence %s: the /flow API stopped answering: %s" % (sq, col.output()[-400:])))
                continue
            dropped = {proto: col.kernel_drops(proto) for proto in want}
            if any(dropped.values()):
                # the statement is about datagrams the collector receives; these the kernel discarded
                # before the collector could read them (socket buffer pressure on this machine)
                print("   [binary] sequence %s not evaluated: the kernel discarded datagrams at the collector's sockets %s" % (sq, dropped), flush=True)
                col.terminate()
                continue
            bad = False
            for proto, (sent, dec, pub) in want.items():
                extra = 1 if proto in ("ipfix", "netflow9") else 0
                got = st.get(key[proto], {})
                if got.get("UDPCount") != sent + extra:
                    fails.append(("binary:count:received", "sequence %s on %s: UDPCount=%s after %d datagrams" % (sq, proto, got.get("UDPCount"), sent + extra)))
                    bad = True
                elif proto != "sflow" and "truncated" not in sq and got.get("DecodedCount") != dec + extra:
                    fails.append(("binary:count:decoded", "sequence %s on %s: DecodedCount=%s, expected %d" % (sq, proto, got.get("DecodedCount"), dec + extra)))
                    bad = True
            lines = sink.snapshot()
            if len(lines) != tot_pub:
                fails.append(("binary:publish:number", "sequence %s: %d lines at the sink, expected %d" % (sq, len(lines), tot_pub)))
                bad = True
            for l in lines:
                try:
                    json.loads(l)
                except Exception:
                    fails.append(("binary:publish:not-json", "sequence %s: %r" % (sq, l[:200])))
                    bad = True
                    break
            col.terminate()
            if not bad:
                ok += 1
        finally:
            if col:
                col.kill()
            sink.close()
            shutil.rmtree(d, ignore_errors=True)
    return ok, len(seqs), fails


def binary_shutdown_runs(n):
    """Trace validation for C15: the shipped binary under real signals, real sockets, real time."""
    import e2e, tempfile, shutil, signal, threading
    binary = e2e.build_real()
    fails, ok = [], 0
    for k in range(n):
        d = tempfile.mkdtemp(prefix="c15e2e_", dir=orch.BUILD)
        sink = e2e.Sink()
        col = col2 = None
        try:
            col, up = e2e.start(binary, d, sink=sink)
            if not up:
                fails.append(("binary:did-not-start", "run %d: collector did not come up: %s" % (k, col.output()[-600:])))
                continue
            fields = [(1, 8), (2, 8)]
            col.send("ipfix", e2e.ipfix_msg([e2e.ipfix_template_set(300, fields)]))
            col.send("netflow9", e2e.v9_msg([e2e.v9_template_set(300, fields)]))
            # "acknowledged before the signal": the template datagrams have been decoded, not merely read
            col.wait_count("IPFIX", 1, field="DecodedCount")
            col.wait_count("NetflowV9", 1, field="DecodedCount")
            nd = 1 + k % 4
            for i in range(nd):
                col.send("ipfix", e2e.ipfix_msg([e2e.data_set(300, bytes(range(16)))], seq=i + 2))
                col.send("netflow9", e2e.v9_msg([e2e.data_set(300, bytes(range(16)))], seq=i + 2))
                col.send("netflow5", e2e.v5_msg(1 + i % 3))
                col.send("sflow", e2e.sflow_counter_msg())
            col.wait_count("IPFIX", 1 + nd)
            stop = [False]

            def flood():
                i = 0
                while not stop[0]:
                    try:
                        col.send("ipfix", e2e.ipfix_msg([e2e.ipfix_template_set(301 + i % 50, fields), e2e.data_set(300, bytes(range(16)))], seq=100 + i))
                        col.send("netflow9", e2e.v9_msg([e2e.v9_template_set(301 + i % 50, fields)], seq=100 + i))
                        col.send("sflow", e2e.sflow_counter_msg())
                    except OSError:
                        pass
                    i += 1
                    if i % 50 == 0:
                        time.sleep(0.001)
            th = None
            if k % 2 == 1:
                th = threading.Thread(target=flood, daemon=True)
                th.start()
                time.sleep(0.05 * (k % 5))
            # every other run: the signal is sent a second time 0.3 s later, while the collector is still stopping
            rc, lat = col.terminate(signal.SIGINT if k % 3 == 2 else signal.SIGTERM, second_after=0.3 if k % 2 == 0 else None)
            stop[0] = True
            if th:
                th.join()
            out = col.output()
            if rc != 0:
                fails.append(("binary:exit-status", "run %d: exit status %s after %.1fs; output tail: %s" % (k, rc, lat, out[-800:])))
                continue
            if "panic:" in out or "fatal error" in out:
                fails.append(("binary:panic-at-shutdown", "run %d: %s" % (k, out[-800:])))
                continue
            if lat > 30.0:  # "a few seconds" on an idle machine; generous because the sandbox may be busy
                fails.append(("binary:slow-exit", "run %d: %.1fs to exit" % (k, lat)))
                continue
            bad = False
            for name, path in col.cache.items():
                try:
                    doc = json.load(open(path))
                    assert doc.get("ShardNo") == 32
                except Exception as e:
                    fails.append(("binary:cache-file", "run %d: %s cache file unusable: %s" % (k, name, e)))
                    bad = True
            if bad:
                continue
            # restart on the same cache files: data only, must be published at once
            before = len(sink.snapshot())
            col2, up2 = e2e.start(binary, d, sink=sink)
            if not up2:
                fails.append(("binary:restart", "run %d: restart failed: %s" % (k, col2.output()[-600:])))
                continue
            col2.send("ipfix", e2e.ipfix_msg([e2e.data_set(300, bytes(range(100, 116)))], seq=999))
            col2.send("netflow9", e2e.v9_msg([e2e.data_set(300, bytes(range(100, 116)))], seq=999))
            t1 = time.time()
            got = []
            while time.time() - t1 < 30:  # generous: the sandbox may be busy (the schedule exploration decides "at once")
                got = [l for l in sink.snapshot()[before:] if b'"SequenceNo":999' in l or b'"SeqNum":999' in l]
                if len(got) >= 2:
                    break
                time.sleep(0.05)
            rc2, _ = col2.terminate()
            if len(got) < 2:
                fails.append(("binary:restart-decode", "run %d: after the restart only %d of the 2 data datagrams for the saved template were published" % (k, len(got))))
                continue
            if rc2 != 0:
                fails.append(("binary:exit-status", "run %d: second stop exit status %s" % (k, rc2)))
                continue
            ok += 1
        finally:
            for c in (col, col2):
                if c:
                    c.kill()
            sink.close()
            shutil.rmtree(d, ignore_errors=True)
    return ok, fails


@check("C15")
def c15(tier):
    t0 = time.time()
    b = build("pipe")
    d, env = sched_env("c15")
    other_fs = None
    try:
        if os.path.isdir("/dev/shm") and os.stat("/dev/shm").st_dev != os.stat(tempfile.gettempdir()).st_dev and os.access("/dev/shm", os.W_OK):
            other_fs = tempfile.mkdtemp(prefix="verif_c15_", dir="/dev/shm")
            env["VERIF_CACHE_DIR2"] = other_fs
    except OSError:
        other_fs = None
    try:
        res = [run_space(b, "pipe.c15", tier, env=env, hang_s=240)]
        res.append(run_space(build("pipe15"), "pipe.c15locks", tier, env=env, hang_s=240))
    finally:
        if other_fs:
            import shutil as _sh
            _sh.rmtree(other_fs, ignore_errors=True)
    import shutil
    shutil.rmtree(d, ignore_errors=True)
    nruns = 20 if tier == "thorough" else 3
    okruns, fails = binary_shutdown_runs(nruns)
    extra_viol = [{"t": "viol", "space": "binary", "idx": i, "sig": sig, "msg": msg, "case": {"kind": "real binary run"}} for i, (sig, msg) in enumerate(fails)]
    r = res[0]
    return finish("C15", tier, res,
                  rule="per pipeline: the real run()/workers/shutdown() under main()'s orchestration (replicated: start, wait for the signal, shutdown, wait) in scenarios idle / data before the signal / data around the signal (queue capacity 1000 and 1) / template burst around the signal, two stop-start cycles each; every schedule within the deviation bound, where a deviation is also a timer firing while other threads are still runnable (a thread descheduled for a second). "
                       "Second space (template cache lock operations are scheduling points too): a template datagram the receive loop has read (counted) right before the signal, deviation bound 2 — the dump against a worker that has taken the datagram off the queue but not stored the template yet. "
                       "the repository's OWN main() (GetOptions and the four constructors redirected to the harness, everything else - signal registration, starting and stopping the protocols, the final wait - as written) with data before the signal and with the signal REPEATED 0.3 virtual seconds later (a signal that finds no handler registered is the process's death), a start between the two cycles that gets the signal AT ONCE (as soon as main has installed its handler: no listener yet, no traffic, no look at the counters), and a restart after two hours (thorough: 400 days) of downtime. Oracle: no panic (send on / close of closed channel, nil dereference), no deadlock, main returns within 10 virtual seconds of the signal, no race report, the cache file left behind loads and holds the template processed before the signal and every template whose datagram had been received (counted) before the signal unless runnable threads were held up for a second or more in total (early timer firings), after the restart data for it is published at once. "
                       "Trace validation: %d runs of the shipped binary (real signals SIGTERM/SIGINT, loopback traffic incl. a flood during the signal, TCP sink behind the rawSocket producer, restart on the same cache files; in every other run the signal is repeated 0.3 s later, while the collector is stopping)." % nruns,
                  assumptions=PIPE_ASSUME + ["most scenarios use a replica of main()'s 20 lines of orchestration next to the real run()/shutdown() (fewer threads: main() starts all four protocols); two scenario families per protocol run the real main() with GetOptions - which cannot be re-run per execution: flag registration, PID file, kill -0 - and the constructors redirected to the harness",
                                             "virtual clock: time advances when every thread is blocked; in addition a timer may fire early at the cost of one deviation",
                                             "'acknowledged before the signal' = the template datagram was fully processed (quiescence) before the signal was sent",
                                             "a restart inside one execution re-creates the package-level state after the old threads have run out (sched.ProcessBoundary)"],
                  extra_cov={"executions": sum(x.extra.get("executions", 0) for x in res), "executions_cache_locks_as_points": res[1].extra.get("executions", 0),
                             "binary_runs": nruns, "binary_runs_ok": okruns,
                             "executions_by_deviations": {k: v for k, v in r.extra.items() if k.startswith("executions_with")}},
                  traces_validated=sum(x.extra.get("executions", 0) for x in res) + okruns,  # every explored execution runs the real code; plus the binary runs
                  extra_viol=extra_viol, t0=t0)


def binary_config_runs(attempt=0):
    """Trace validation for C17: effective settings of the started binary (Workers in /flow, bound
    ports, cache file written at shutdown) for configurations mixing the three sources."""
    import e2e, tempfile, shutil, socket
    binary = e2e.build_real()
    fails, ok = [], 0
    ports = e2e.free_ports(12)
    httpp = e2e.free_ports(3, socket.SOCK_STREAM)
    common = "producer-enabled: false\ndynamic-workers: false\nipfix-rpc-enabled: false\nsflow-port: %d\nnetflow5-port: %d\nnetflow9-port: %d\n" % (ports[0], ports[1], ports[2])
    runs = [
        ("file only", common + "ipfix-workers: 7\nipfix-port: %d\n" % ports[3], {}, [], {"workers": 7, "ipfix_port": ports[3]}),
        ("file + command line", common + "ipfix-workers: 7\nipfix-port: %d\n" % ports[3], {}, ["-ipfix-workers", "9"], {"workers": 9, "ipfix_port": ports[3]}),
        ("environment only", common + "ipfix-port: %d\n" % ports[4], {"VFLOW_IPFIX_WORKERS": "5"}, [], {"workers": 5, "ipfix_port": ports[4]}),
        ("environment + file", common + "ipfix-workers: 6\nipfix-port: %d\n" % ports[4], {"VFLOW_IPFIX_WORKERS": "5"}, [], {"workers": 6, "ipfix_port": ports[4]}),
        ("environment + command line", common, {"VFLOW_IPFIX_WORKERS": "5", "VFLOW_IPFIX_PORT": str(ports[5])}, ["-ipfix-workers", "4", "-ipfix-port", str(ports[6])], {"workers": 4, "ipfix_port": ports[6]}),
        ("all three + cache file from the environment, stats port from the file", common + "ipfix-workers: 6\nstats-http-port: \"%d\"\n" % httpp[0],
         {"VFLOW_IPFIX_WORKERS": "5", "VFLOW_IPFIX_PORT": str(ports[7]), "VFLOW_IPFIX_TPL_CACHE_FILE": "ENVCACHE"}, ["-ipfix-workers", "3"], {"workers": 3, "ipfix_port": ports[7], "http": httpp[0], "cache": "ENVCACHE"}),
        ("protocol disabled in the file, enabled on the command line", common + "ipfix-enabled: false\nipfix-port: %d\n" % ports[8], {}, ["-ipfix-enabled=true"], {"workers": 200, "ipfix_port": ports[8]}),
        ("file given as -config=FILE + command line", common + "ipfix-workers: 7\nipfix-port: %d\n" % ports[9], {}, ["-ipfix-workers", "9"], {"workers": 9, "ipfix_port": ports[9], "config_as": "-config=FILE"}),
        ("file given as --config FILE, environment underneath", common + "ipfix-workers: 6\nipfix-port: %d\n" % ports[10], {"VFLOW_IPFIX_WORKERS": "5"}, [], {"workers": 6, "ipfix_port": ports[10], "config_as": "--config FILE"}),
    ]
    for name, cfg, env, args, want in runs:
        d = tempfile.mkdtemp(prefix="c17e2e_", dir=orch.BUILD)
        env = dict(env)
        if env.get("VFLOW_IPFIX_TPL_CACHE_FILE") == "ENVCACHE":
            env["VFLOW_IPFIX_TPL_CACHE_FILE"] = os.path.join(d, "from-env.cache")
            want = dict(want, cache=os.path.join(d, "from-env.cache"))
        env.setdefault("VFLOW_NETFLOW9_TPL_CACHE_FILE", os.path.join(d, "n9.cache"))
        if "cache" not in want:
            env.setdefault("VFLOW_IPFIX_TPL_CACHE_FILE", os.path.join(d, "i.cache"))
        col = None
        try:
            col = e2e.Collector(binary, d, extra_args=args, env=env, config_text=cfg, minimal=True, config_as=want.get("config_as", "-config FILE"))
            if "http" in want:
                col.http = want["http"]
            if not col.wait_up():
                if not col.alive() and "address already in use" in col.output() and attempt < 3:
                    return binary_config_runs(attempt + 1)  # another process took a port picked above: all over with new ports
                fails.append(("binary:config:did-not-start", "%s: %s" % (name, col.output()[-500:])))
                continue
            # main() starts the listeners and the stats server side by side: wait for the IPFIX listener
            # (Workers is added right after the bind) - or for all four listeners to exist elsewhere
            col.wait_bound([want["ipfix_port"]])
            st = col.wait_count("IPFIX", 1, timeout=30, field="Workers") or col.stats()
            if not st or "IPFIX" not in st:
                fails.append(("binary:config:stats-unreachable", "%s: the /flow API stopped answering: %s" % (name, col.output()[-500:])))
                continue
            if st["IPFIX"]["Workers"] != want["workers"]:
                fails.append(("binary:config:workers", "%s: /flow reports %s IPFIX workers, expected %d" % (name, st["IPFIX"]["Workers"], want["workers"])))
                continue
            col.ports["ipfix"] = want["ipfix_port"]
            col.send("ipfix", e2e.ipfix_msg([e2e.ipfix_template_set(300, [(1, 8)])]))
            st = col.wait_count("IPFIX", 1)
            if not st or st["IPFIX"]["UDPCount"] != 1:
                fails.append(("binary:config:port", "%s: a datagram sent to the expected IPFIX port %d was not received" % (name, want["ipfix_port"])))
                continue
            rc, _ = col.terminate()
            if rc != 0:
                fails.append(("binary:config:exit", "%s: exit status %s" % (name, rc)))
                continue
            if "cache" in want and not os.path.exists(want["cache"]):
                fails.append(("binary:config:cache-file", "%s: no cache file at the path given by the environment" % name))
                continue
            ok += 1
        finally:
            if col:
                col.kill()
            shutil.rmtree(d, ignore_errors=True)
    return ok, len(runs), fails


@check("C17")
def c17(tier):
    t0 = time.time()
    b = build("pipe")
    d, env = sched_env("c17")
    res = [run_space(b, sp, tier, env=env) for sp in ("opts.single", "opts.pairs", "opts.filter")]
    res[2].viol = [v for v in res[2].viol if "cmd-over-file" in v["sig"]]
    import shutil
    shutil.rmtree(d, ignore_errors=True)
    ok, n, fails = binary_config_runs()
    extra_viol = [{"t": "viol", "space": "binary", "idx": i, "sig": sig, "msg": msg, "case": {"kind": "real binary run"}} for i, (sig, msg) in enumerate(fails)]
    return finish("C17", tier, res,
                  rule="the key <-> field <-> flag <-> yaml <-> env table is discovered from the code (struct tags; each flag set to a sentinel and the moved field observed): 45 int/string/bool settings. opts.single: every setting x every subset of {environment, file, command line} x distinct values per source (booleans: every assignment; strings: 8 value shapes incl. '=', spaces, ':', '#', quotes, path-like), incl. a config file lacking the key; opts.pairs: every pair of settings x every ordered pair of sources; opts.filter: the list-valued sflow-type-filter from file and command line. "
                       "Oracle: command line > file > environment > default for the setting, every other setting untouched. Non-trivial = every case. Trace validation: %d configurations on the shipped binary (Workers in /flow, the IPFIX port actually bound, cache file path written at shutdown, stats port)." % n,
                  assumptions=["driven through NewOptions()+flagSet(), i.e. GetOptions without logging/PID handling; flag.CommandLine, os.Args and the VFLOW_* environment are reset per case",
                               "doc/flag-name differences (e.g. key ipfix-udp-size vs flag -ipfix-max-udp-size) are outside the statement; the table pairs each field with the flag that actually moves it"],
                  extra_cov={"binary_runs": n, "binary_runs_ok": ok}, traces_validated=sum(r.evals for r in res) + ok, extra_viol=extra_viol, t0=t0)


@check("C16")
def c16(tier):
    t0 = time.time()
    b = build("pipe")
    d, env = sched_env("c16")
    res = [run_space(b, "mirror.len", tier, env=env, hang_s=60), run_space(b, "pipe.c16", tier, env=env, hang_s=180)]
    env2 = dict(env)
    env2.pop("VERIF_SCHED", None)  # these workers wait for a child in its own network namespace
    res.append(run_space(b, "mirror.slowlink", tier, env=env2, hang_s=400))
    import shutil
    shutil.rmtree(d, ignore_errors=True)
    inc = [r.space for r in res if not r.complete]
    return finish("C16", tier, res,
                  rule="mirror.len: the real mirrorIPFIX / mirrorSFlow goroutines driven through their real channel and a real raw socket over loopback: max-udp-size {64, 576, 1500} x target port {10024, 1024, 65535} x exporter {192.1.1.1, 10.0.0.1, 127.0.0.2, 255.255.255.254} x address form {4-byte, 16-byte} x 2 fills x EVERY payload length 0..max (quick: every length for the first exporter, every 7th plus both ends for the others; every port only with the smallest buffer). "
                       "Oracle: exactly one datagram reaches the UDP listener, payload identical, source address = exporter, and the IP header captured on a raw IPPROTO_UDP socket has total length 20+8+n, UDP length 8+n, IHL 5, destination 127.0.0.1 and the target port. "
                       "mirror.slowlink: the environment answer loopback never gives - a link towards the target that is slower than the burst. Each case runs the real mirror goroutine in a child process with a network namespace of its own: veth pair, sending side shaped by a token bucket (8 Mbit/s, queue 4 MB: the shaper drops nothing), AF_PACKET capture on the far end; protocol x burst {300, 600} (thorough {1, 100, 300, 600, 1200}) x payload lengths {1000..1400, 4..200} (thorough also 1400..1472 and 600). Oracle: every datagram of the burst arrives unchanged (addresses, lengths, payload, once), the goroutine does not crash, and a datagram handed over after the link has drained is mirrored too. Ends are state barriers (goroutine state, channel length, shaper backlog). "
                       "pipe.c16: the ipfix and sflow pipelines with mirroring enabled under the scheduler: published payloads equal the standalone decodes (mirroring never changes what is published), the mirror goroutines receive every datagram unchanged, no race report.",
                  assumptions=PIPE_ASSUME + ["CAP_NET_RAW is required (present in this sandbox type); without it the space reports exhaustive=false", "mirror.slowlink needs CLONE_NEWNET, ip and tc (present in this sandbox type); where the namespace or the shaper cannot be built its cases are skipped and the space reports exhaustive=false", "IPv4 mirror targets only (the IPv6 path leaves the UDP checksum TODO in the repository and needs a routable IPv6 loopback)"], t0=t0)


@check("C14")
def c14(tier):
    t0 = time.time()
    b = build("prod")
    d, env = sched_env("c14")
    env.pop("GORACE", None)
    res = [run_space(b, "prod.tcp", tier, env=env, hang_s=90), run_space(b, "prod.udp", tier, env=env, hang_s=90), run_space(b, "prod.burst", tier, env=env, hang_s=90), run_space(b, "prod.stall", tier, env=env, hang_s=120), run_space(b, "prod.move", tier, env=env, hang_s=90)]
    env2 = dict(env)
    env2["VERIF_SCHED"] = "1"
    res.append(run_space(build("prod2"), "prod.two", tier, env=env2, hang_s=120))
    import shutil
    shutil.rmtree(d, ignore_errors=True)
    return finish("C14", tier, res,
                  rule="prod.tcp: the real Producer.Run -> RawSocket.setup (real YAML config: tcp, retry-max 0/1/2) -> inputMsg against a real loopback TCP sink; 6 messages handed over through an unbuffered channel (a completed hand-over means the previous message is finished); before each of messages 2..6 one action from {none, sink closes (FIN), sink resets (RST, SO_LINGER 0), sink listener down + reset, listener up}: every action sequence with at most 2 (thorough 3) faults; "
                       "3 message sets (plain JSON; per-cent sequences 100% %d %s %% %; empty / 5 KB / 70 KB messages). Faults are injected while the producer is blocked on its input channel and are followed by a TCP_INFO barrier on the producer's own socket (no sleeps). "
                       "Oracle: per sink connection the lines (split at newline; an unterminated tail of a dead connection is not a message) form an in-order, duplicate-free, byte-identical subsequence of the messages; losses <= messages handed over while the sink was down + 2 per fault; error counter 0 without faults; Run returns when the channel is closed. "
                       "prod.burst: buffered channel as in the collector, bursts of 1..3 messages while the sink is up / while it is away (listener down + RST) / after it is back x retry-max 0/1/2 x plain and shared-buffer messages; state barrier 'queue empty and producer parked in its receive' between the phases; what the sink got must be an in-order, duplicate-free, byte-identical subsequence containing the whole first burst, and the producer must come to rest. "
                       "prod.stall: the sink stays connected but stops reading while 24 MiB are in flight, the producer blocks in its write (state barrier: its goroutine is in 'IO wait') for 6 s (thorough 35 s) of real time, then the sink reads on: every message arrives once, whole, in order (a blocked write is not a failed one). "
                       "prod.move: the sink is configured by NAME (resolved by the harness's name service behind net.Dial); it goes away and comes back under the same name and port on ANOTHER address (fail-over); retry-max 0/1/2 x 2..4 messages before the move: delivery must resume (the last message arrives) and what arrives is an in-order, duplicate-free subsequence. "
                       "prod.udp: udp configuration, sink up/down per message (all 32 masks) x retry-max x message sets, messages handed over one at a time or all queued before the producer starts; every datagram is exactly the next message + newline. "
                       "prod.two (the producer package under the controlled scheduler): TWO rawSocket producers in one process, as the collector runs one per protocol, each with its own virtual sink and a burst waiting in its queue; every interleaving (scheduling points at queue operations and before every write enters the kernel); each sink must receive exactly its own producer's messages. states = fault sequences executed, transitions = messages handed over.",
                  assumptions=["the environment is the real Linux loopback TCP/UDP stack, not a model: every explored fault sequence is a real kernel trace",
                               "only producer.go + rawSocket.go are decided; the Kafka (sarama, segmentio), NSQ and NATS drivers need a broker and cannot be exercised offline",
                               "a write the kernel accepted on a connection the peer has already closed is lost silently (TCP semantics): the statement allows a bounded gap, so loss is bounded, not excluded",
                               "mid-write faults (peer closing while a large write is in flight) are not injected"],
                  traces_validated=sum(r.evals for r in res), t0=t0)


def main(argv):
    if len(argv) >= 1 and argv[0] == "--setup":
        for n in BINARIES:
            build(n)
        return 0
    if len(argv) < 2:
        print(__doc__)
        return 2
    pid = argv[0]
    if pid not in CHECKS:
        print("unknown check", pid)
        return 2
    if argv[1] == "--replay":
        return replay(pid, argv[2])
    tier = argv[1]
    return CHECKS[pid](tier)


def replay(pid, path):
    rec = json.load(open(path))
    v = rec["first"]
    name = rec.get("binary") or v.get("binary") or pid.lower()
    b = build(name)
    cmd = [b, "-space", v["space"], "-tier", rec.get("tier", "quick"), "-only", str(v["idx"])] + list(v.get("args", []))
    log(" ".join(cmd))
    r = subprocess.run(cmd, env=orch.GOENV, stdout=subprocess.PIPE, stderr=subprocess.PIPE, text=True)
    hit = False
    for line in r.stdout.splitlines():
        try:
            o = json.loads(line)
        except Exception:
            continue
        if o.get("t") == "viol":
            hit = True
            print(json.dumps(o, indent=1)[:4000])
    if r.returncode != 0:
        hit = True
        print(r.stderr[-3000:])
    if hit:
        print("VIOLATION property=%s replay=%s" % (pid, path))
        return 1
    print("not reproduced")
    return 0


if __name__ == "__main__":
    try:
        sys.exit(main(sys.argv[1:]))
    except MachineryError as e:
        print("MACHINERY-ERROR:", e, file=sys.stderr)
        sys.exit(2)

#!/usr/bin/env python3
"""seedtable.py <seedrun output>: markdown table of the seeded changes (seeded/*/meta.json) and which check caught them."""
import json, os, sys, collections
root = os.path.join(os.path.dirname(os.path.abspath(__file__)), "..", "seeded")
res = collections.defaultdict(list)
for l in open(sys.argv[1]):
    p = l.split()
    if len(p) >= 3:
        sigs = [x[4:] for x in p[3:] if x.startswith("sig=")]
        res[p[0]].append((p[1], p[2].split("=")[1], sigs))
print("| seed | change | needs | caught by (quick tier) |")
print("|---|---|---|---|")
def key(d):
    return (d[3:] or "r1", d[:3])
for d in sorted([x for x in os.listdir(root) if os.path.isdir(os.path.join(root, x))], key=key):
    m = json.load(open(os.path.join(root, d, "meta.json")))
    if m.get("status", "").startswith("obsolete"):
        by = "— (" + m["status"][:60] + "…)"
    else:
        by = "; ".join("%s %s%s" % (c, "**yes**" if rc == "1" else ("no" if rc == "0" else "exit " + rc), " (" + s[0].replace("|", " / ") + ")" if s else "") for c, rc, s in res.get(d, [])) or "not run"
    cut = lambda s, n: (s[:n] + "…") if len(s) > n else s
    print("| %s | %s | %s | %s |" % (d, cut(m.get("summary", "").replace("|", "/"), 260), cut(m.get("needs", "").replace("|", "/"), 200), by))

#!/usr/bin/env python3
"""Orchestrator for the bounded-exhaustive checks (see DESIGN.md §2).

  bin/check <Cxx> quick|thorough            run one check, write evidence/<Cxx>.json
  bin/check <Cxx> --replay <file>           re-execute one recorded violation
  bin/check --setup                         pre-build every harness binary

Exit codes: 0 held (KNOWN-FINDING lines allowed) / 1 new violation / 2 machinery error.
"""
import json, os, re, shutil, struct, subprocess, sys, time, hashlib, resource, signal, tempfile

VERIF = os.path.dirname(os.path.dirname(os.path.abspath(__file__)))
REPO = os.environ.get("VERIF_REPO", "/repo")
BUILD = os.environ.get("VERIF_BUILD", os.path.join(VERIF, "build"))
EVDIR = os.environ.get("VERIF_EVIDENCE_DIR", os.path.join(VERIF, "evidence"))
RPDIR = os.path.join(os.path.dirname(EVDIR), "replays") if os.environ.get("VERIF_EVIDENCE_DIR") else os.path.join(VERIF, "replays")
NCPU = int(os.environ.get("VERIF_JOBS", str(os.cpu_count() or 4)))
GOENV = dict(os.environ, GOFLAGS="-mod=mod", GOPROXY="off", GOSUMDB="off", GOTOOLCHAIN="local", CGO_ENABLED=os.environ.get("CGO_ENABLED", "1"))


class MachineryError(Exception):
    pass


def log(*a):
    print(*a, file=sys.stderr, flush=True)


# ----------------------------------------------------------------------------- build

def overlay_map(extra=None, skip_prefixes=()):
    """Map every file under /verif/overlay/<rel> to <REPO>/<rel>."""
    m = {}
    root = os.path.join(VERIF, "overlay")
    for d, _, files in os.walk(root):
        for f in files:
            src = os.path.join(d, f)
            rel = os.path.relpath(src, root)
            if any(rel.startswith(p) for p in skip_prefixes):
                continue
            m[os.path.join(REPO, rel)] = src
    if extra:
        m.update(extra)
    return m


def write_overlay(name, extra=None, skip_prefixes=()):
    os.makedirs(BUILD, exist_ok=True)
    p = os.path.join(BUILD, "ov_%s_%d.json" % (name, os.getpid()))
    with open(p, "w") as f:
        json.dump({"Replace": overlay_map(extra, skip_prefixes)}, f)
    return p


def repo_clean_guard():
    """The overlay must never leave anything in the repository."""
    z = os.path.join(REPO, "zzverif")
    if os.path.exists(z):
        raise MachineryError("%s exists on disk: the harness is overlay-only" % z)


def go_build(name, pkg, race=False, extra_overlay=None, tags="verif", test=False, skip_prefixes=(), goarch=None):
    """Build ./<pkg> (a main package, possibly virtual) from REPO's working tree + overlay."""
    repo_clean_guard()
    ov = write_overlay(name, extra_overlay, skip_prefixes)
    final = os.path.join(BUILD, "bin", name)
    out = "%s.tmp.%d" % (final, os.getpid())  # built aside and renamed: a concurrent check may be running the old one
    os.makedirs(os.path.dirname(out), exist_ok=True)
    if test:
        cmd = ["go", "test", "-c", "-vet=off"]
    else:
        cmd = ["go", "build"]
    cmd += ["-tags", tags, "-overlay", ov, "-o", out]
    if race:
        cmd.append("-race")
    cmd.append("./" + pkg)
    t0 = time.time()
    r = subprocess.run(cmd, cwd=REPO, env=dict(GOENV, GOARCH=goarch, CGO_ENABLED="0") if goarch else GOENV, stdout=subprocess.PIPE, stderr=subprocess.STDOUT, text=True)
    try:
        os.remove(ov)
    except OSError:
        pass
    if r.returncode != 0:
        raise MachineryError("build of %s failed:\n%s" % (name, r.stdout[-6000:]))
    own = "%s.%d" % (final, os.getpid())
    os.replace(out, own)  # each check process runs its own copy
    import atexit
    atexit.register(lambda p=own: os.path.exists(p) and os.remove(p))
    log("[build] %s (%.1fs)" % (name, time.time() - t0))
    return own


# ----------------------------------------------------------------------------- workers

class SpaceResult:
    def __init__(self, space):
        self.space = space
        self.size = 0
        self.evals = 0
        self.nontrivial = 0
        self.states = 0
        self.transitions = 0
        self.maxdepth = 0
        self.samples = []
        self.complete = True
        self.viol = []          # violation records
        self.nviol = 0
        self.extra = {}
        self.outcomes = {}
        self.wall = 0.0


def _limits(as_bytes):
    def f():
        try:  # a worker must not outlive the orchestrator (PR_SET_PDEATHSIG = 1)
            import ctypes
            ctypes.CDLL("libc.so.6", use_errno=True).prctl(1, signal.SIGKILL)
        except Exception:
            pass
        if as_bytes:
            resource.setrlimit(resource.RLIMIT_AS, (as_bytes, as_bytes))
        resource.setrlimit(resource.RLIMIT_CORE, (0, 0))
    return f


def run_space(binary, space, tier, nshards=None, hang_s=30.0, as_bytes=0, env=None, args=(), budget_s=0, max_restarts=200, max_crashes=6):
    """Run all shards of one space; handles worker death / hangs (DESIGN §2.2)."""
    nshards = nshards or NCPU
    rd = tempfile.mkdtemp(prefix="run_", dir=BUILD)
    res = SpaceResult(space)
    t0 = time.time()
    e = dict(GOENV)
    e["GOTRACEBACK"] = "all"
    e["GOMAXPROCS"] = "1"  # one case at a time per worker; parallelism comes from the shards
    # harnesses that need real loopback sockets bind them to 127.<VERIF_LOOP>.<shard+1>.1: two check runs at
    # the same time (another check, another tier, a mutant run) cannot reach each other's sockets
    e["VERIF_LOOP"] = str(os.getpid() % 250 + 2)
    if env:
        e.update(env)

    class W:
        pass

    def start(w):
        w.prog = os.path.join(rd, "p%d" % w.shard)
        w.hash = os.path.join(rd, "h%d_%d" % (w.shard, w.gen))
        w.errp = os.path.join(rd, "e%d_%d" % (w.shard, w.gen))
        w.outp = os.path.join(rd, "o%d_%d" % (w.shard, w.gen))
        with open(w.prog, "wb") as f:
            f.write(struct.pack("<Q", (1 << 64) - 2))
        cmd = [binary, "-space", space, "-tier", tier, "-shard", str(w.shard), "-nshards", str(nshards),
               "-from", str(w.frm), "-progress", w.prog, "-hashes", w.hash] + list(args)
        if budget_s:
            cmd += ["-budget", "%ds" % budget_s]
        w.out = open(w.outp, "wb")
        w.err = open(w.errp, "wb")
        w.p = subprocess.Popen(cmd, stdout=w.out, stderr=w.err, env=e, preexec_fn=_limits(as_bytes), cwd=rd)
        w.last = None
        w.last_t = time.time()
        w.hashes.append(w.hash)
        w.outs.append(w.outp)

    ws = []
    for s in range(nshards):
        w = W()
        w.shard, w.gen, w.frm, w.hashes, w.outs, w.restarts = s, 0, 0, [], [], 0
        start(w)
        ws.append(w)

    def cur_idx(w):
        try:
            with open(w.prog, "rb") as f:
                b = f.read(16)
            w.beat = b[8:16]
            return struct.unpack("<Q", b[:8])[0]
        except Exception:
            return None

    live = list(ws)
    crashes = [0]

    def too_many():
        crashes[0] += 1
        if crashes[0] >= max_crashes:
            for x in live:
                try:
                    x.p.kill(); x.p.wait()
                    x.out.close(); x.err.close()
                except Exception:
                    pass
            del live[:]
            res.complete = False
            log("[run] %s: %d workers died/hung - stopping the space early (violations are reported; coverage is partial)" % (space, crashes[0]))
            return True
        return False

    while live:
        time.sleep(0.05)
        for w in list(live):
            rc = w.p.poll()
            idx = cur_idx(w)
            now = time.time()
            if rc is None:
                if (idx, getattr(w, "beat", b"")) != w.last:
                    w.last, w.last_t = (idx, getattr(w, "beat", b"")), now
                elif hang_s and now - w.last_t > hang_s and idx is not None and idx < (1 << 64) - 2:
                    if e.get("VERIF_SCHED") == "1" and not _busy(w.p.pid):
                        # a scheduler-controlled exploration that neither progresses nor burns CPU: some thread is blocked in an
                        # operation the scheduler does not model (the scheduler reports real deadlocks itself): the harness
                        # cannot judge this code - a machinery error, never a verdict
                        w.p.kill()
                        w.p.wait()
                        raise MachineryError("worker %s shard %d: no progress for %.0fs while idle - a thread is blocked outside the scheduler's control (an operation the instrumenter does not rewrite?)\n%s" % (space, w.shard, hang_s, open(w.errp).read()[-2000:]))
                    w.p.kill()
                    w.p.wait()
                    w.out.close(); w.err.close()
                    res.viol.append(crash_record(binary, space, tier, idx, "hang", "no progress for %.0fs" % hang_s, w.errp, args, e))
                    res.nviol += 1
                    w.restarts += 1
                    if too_many():
                        break
                    if w.restarts > max_restarts:
                        res.complete = False
                        live.remove(w)
                        continue
                    w.gen += 1
                    w.frm = idx + 1
                    start(w)
                continue
            w.out.close(); w.err.close()
            if rc == 0:
                live.remove(w)
                continue
            if rc == 7 and idx is not None and idx < (1 << 64) - 2:
                # the worker's own watchdog reported the case in flight (violation line already written) and gave up
                w.restarts += 1
                if too_many():
                    break
                w.gen += 1
                w.frm = idx + 1
                start(w)
                continue
            if rc == 3:  # the harness says it cannot go on (rig, scheduler limit, helper process): never a verdict
                raise MachineryError("worker %s shard %d: harness failure (exit 3):\n%s" % (space, w.shard, open(w.errp).read()[-3000:]))
            if rc == 2 and (idx is None or idx >= (1 << 64) - 2):
                raise MachineryError("worker %s shard %d exited 2:\n%s" % (space, w.shard, open(w.errp).read()[-3000:]))
            if idx is None or idx >= (1 << 64) - 2:
                raise MachineryError("worker %s shard %d died (rc=%s) outside a case:\n%s" % (space, w.shard, rc, open(w.errp).read()[-3000:]))
            res.viol.append(crash_record(binary, space, tier, idx, "fatal", "worker died rc=%s" % rc, w.errp, args, e))
            res.nviol += 1
            w.restarts += 1
            if too_many():
                break
            if w.restarts > max_restarts:
                res.complete = False
                live.remove(w)
                continue
            w.gen += 1
            w.frm = idx + 1
            start(w)

    allh = []
    for w in ws:
        allh += w.hashes
        for op in w.outs:
            with open(op) as f:
                for line in f:
                    line = line.strip()
                    if not line:
                        continue
                    try:
                        o = json.loads(line)
                    except Exception:
                        continue
                    if o.get("t") == "viol":
                        res.viol.append(o)
                    elif o.get("t") == "stats":
                        res.size = o["size"]
                        res.evals += o["evals"]
                        res.states += o["states"]
                        res.transitions += o["transitions"]
                        res.maxdepth = max(res.maxdepth, o["maxdepth"])
                        res.nviol += o["violations"]
                        if not o["complete"]:
                            res.complete = False
                        for s in o.get("samples") or []:
                            if len(res.samples) < 4:
                                res.samples.append(s)
                        for k, v in (o.get("extra") or {}).items():
                            res.extra[k] = res.extra.get(k, 0) + v
                        for k, v in (o.get("outcomes") or {}).items():
                            res.outcomes[k] = res.outcomes.get(k, 0) + v
    hs = [h for h in allh if os.path.exists(h)]
    if hs:
        r = subprocess.run([binary, "-merge", ",".join(hs)], stdout=subprocess.PIPE, text=True, env=e)
        res.nontrivial = int(r.stdout.strip() or 0)
    res.wall = time.time() - t0
    shutil.rmtree(rd, ignore_errors=True)
    log("[run] %-28s size=%d evals=%d nontrivial=%d states=%d trans=%d viol=%d complete=%s %.1fs" % (
        space, res.size, res.evals, res.nontrivial, res.states, res.transitions, res.nviol, res.complete, res.wall))
    return res


def _busy(pid):
    """Is the process burning CPU (utime+stime grows by more than 0.3 s in 1.5 s)?"""
    def cpu():
        try:
            f = open("/proc/%d/stat" % pid).read().rsplit(")", 1)[1].split()
            return (int(f[11]) + int(f[12])) / os.sysconf("SC_CLK_TCK")
        except Exception:
            return None
    a = cpu()
    time.sleep(1.5)
    b = cpu()
    return a is not None and b is not None and b - a > 0.3


def crash_record(binary, space, tier, idx, kind, msg, errp, args, env):
    """A worker died or hung on case idx: re-run the case alone to confirm, and build a signature."""
    try:
        full = open(errp, errors="replace").read()
        tail = full[:3000] + ("\n...\n" + full[-5000:] if len(full) > 3000 else "")
    except Exception:
        tail = ""
    confirmed = 0
    for _ in range(2):
        try:
            r = subprocess.run([binary, "-space", space, "-tier", tier, "-only", str(idx)] + list(args), stdout=subprocess.PIPE, stderr=subprocess.PIPE,
                               timeout=6, env=env, preexec_fn=_limits(3 << 30))
            if r.returncode != 0:
                confirmed += 1
                if not tail.strip():
                    tail = r.stderr.decode(errors="replace")[:8000]
        except subprocess.TimeoutExpired:
            confirmed += 1
    desc = {}
    try:
        r = subprocess.run([binary, "-space", space, "-tier", tier, "-describe", str(idx)] + list(args), stdout=subprocess.PIPE, stderr=subprocess.PIPE, timeout=20, env=env)
        desc = json.loads(r.stdout.decode() or "{}")
    except Exception:
        pass
    first = ""
    site = "?"
    lines = tail.splitlines()
    for l in lines:
        if l.startswith("fatal error:") or l.startswith("panic:") or l.startswith("runtime:"):
            first = l.strip()
            break
    for i, l in enumerate(lines):
        if "github.com/EdgeCast/vflow" in l and "zzverif" not in l and "(" in l:
            f = l.strip()
            f = f[:f.rfind("(")]
            site = f[f.rfind("/") + 1:]
            break
    cls = desc.get("class", "")
    sig = "%s:%s@%s%s" % (kind, re.sub(r"0x[0-9a-f]+|\d{3,}", "N", first)[:60], site, (":" + cls) if cls else "")
    return {"t": "viol", "space": space, "idx": idx, "sig": sig, "msg": msg + (" (reconfirmed %d/2 alone)" % confirmed),
            "case": {"describe": desc, "stderr_tail": tail[-1500:]}, "confirmed": confirmed}


# ----------------------------------------------------------------------------- findings / evidence

def load_known():
    p = os.path.join(VERIF, "known_findings.jsonl")
    out = []
    if os.path.exists(p):
        for line in open(p):
            line = line.strip()
            if line and not line.startswith("#"):
                out.append(json.loads(line))
    return out


def finish(pid, tier, results, rule, assumptions, t0, extra_cov=None, traces_validated=None, binaries=None, extra_viol=None):
    """Classify violations, write replays + evidence, print verdict lines, return exit code."""
    known = [k for k in load_known() if k.get("status") == "known" and k.get("property") == pid]
    viol = []
    for r in results:
        for v in r.viol:
            v = dict(v)
            v["space"] = r.space
            viol.append(v)
    for v in (extra_viol or []):
        viol.append(v)
    by_sig = {}
    for v in viol:
        by_sig.setdefault(v["sig"], []).append(v)
    rdir = os.path.join(RPDIR, pid)
    shutil.rmtree(rdir, ignore_errors=True)
    new, kn = 0, 0
    for n, (sig, vs) in enumerate(sorted(by_sig.items())):
        vs.sort(key=lambda v: (v.get("space", ""), v.get("idx", 0)))
        match = None
        for k in known:
            if k.get("sig") == sig or (k.get("sig_re") and re.fullmatch(k["sig_re"], sig)):
                match = k
                break
        os.makedirs(rdir, exist_ok=True)
        path = os.path.join(rdir, "%03d.json" % n)
        with open(path, "w") as f:
            json.dump({"property": pid, "tier": tier, "sig": sig, "count_reported": len(vs), "first": vs[0], "more": vs[1:3],
                       "replay_cmd": "bin/check %s --replay %s" % (pid, path)}, f, indent=1, default=str)
        if match:
            kn += 1
            print("KNOWN-FINDING: property=%s %s [sig=%s]" % (pid, match.get("what", ""), sig), flush=True)
        else:
            new += 1
            print("VIOLATION property=%s replay=%s" % (pid, path), flush=True)
            log("   sig=%s msg=%s" % (sig, str(vs[0].get("msg"))[:300]))
    cov = {}
    evals = sum(r.evals for r in results)
    nontriv = sum(r.nontrivial for r in results)
    states = sum(r.states for r in results)
    trans = sum(r.transitions for r in results)
    cov["evaluations"] = evals
    cov["distinct_nontrivial"] = nontriv
    cov["rule"] = rule
    samples = []
    for r in results:
        for s in r.samples[:2]:
            samples.append({"space": r.space, "case": s})
    cov["samples"] = samples[:12] or [{"note": "no sample recorded"}]
    if states and trans:
        cov["states"] = states
        cov["transitions"] = trans
    cov["traces_validated_against_impl"] = traces_validated if traces_validated is not None else evals
    cov["exhaustive"] = all(r.complete for r in results)
    cov["max_depth"] = max([r.maxdepth for r in results] + [0])
    cov["spaces"] = {r.space: {"size": r.size, "evaluations": r.evals, "distinct_nontrivial": r.nontrivial, "states": r.states, "transitions": r.transitions,
                               "max_depth": r.maxdepth, "complete": r.complete, "violations": r.nviol, "wall_s": round(r.wall, 2),
                               "outcomes": r.outcomes, "counters": r.extra} for r in results}
    cov["distinct_outcomes"] = sum(len(r.outcomes) for r in results)
    cov["violation_signatures"] = {"new": new, "known": kn}
    if extra_cov:
        cov.update(extra_cov)
    ev = {"property_id": pid, "tier": tier, "seed": int(os.environ.get("VERIF_SEED", "0") or 0), "level": "model_checking",
          "coverage": cov, "assumptions": assumptions, "wall_s": round(time.time() - t0, 2), "violations": new,
          "repo": REPO, "repo_head": git_head()}
    validate_evidence(ev)
    os.makedirs(EVDIR, exist_ok=True)
    with open(os.path.join(EVDIR, pid + ".json"), "w") as f:
        json.dump(ev, f, indent=1, default=str)
    log("[%s/%s] evals=%d nontrivial=%d states=%d transitions=%d exhaustive=%s new=%d known=%d wall=%.1fs" % (
        pid, tier, evals, nontriv, states, trans, cov["exhaustive"], new, kn, time.time() - t0))
    return 1 if new else 0


def git_head():
    try:
        h = subprocess.run(["git", "-C", REPO, "rev-parse", "--short", "HEAD"], stdout=subprocess.PIPE, text=True).stdout.strip()
        d = subprocess.run(["git", "-C", REPO, "status", "--porcelain"], stdout=subprocess.PIPE, text=True).stdout.strip()
        return h + ("+dirty" if d else "")
    except Exception:
        return "?"


def validate_evidence(ev):
    c = ev["coverage"]
    for k in ("property_id", "tier", "seed", "level", "coverage", "wall_s"):
        if k not in ev:
            raise MachineryError("evidence lacks " + k)
    # the vacuity guards protect a GREEN verdict; a run that established violations is not vacuous
    # (cases that end in a violation are not counted as non-trivial)
    if ev.get("violations", 0) > 0:
        pass
    elif all(k in c for k in ("states", "transitions", "traces_validated_against_impl", "samples")):
        if c["states"] < 1 or c["transitions"] < 1 or not c["samples"]:
            raise MachineryError("evidence: empty state space")
    else:
        if c.get("evaluations", 0) < 1 or c.get("distinct_nontrivial", 0) < 2:
            raise MachineryError("evidence: vacuous run (evaluations=%s distinct_nontrivial=%s)" % (c.get("evaluations"), c.get("distinct_nontrivial")))
    sch = "/root/.vp/EVIDENCE.schema.json"
    try:
        import jsonschema  # only in the tooling venv; optional
        jsonschema.validate(ev, json.load(open(sch)))
    except ImportError:
        pass

#!/usr/bin/env python3
"""dev helper: run spaces of a binary and print violation signatures"""
import sys, json, os
sys.path.insert(0, os.path.dirname(os.path.abspath(__file__)))
import checks, orch
name = sys.argv[1]
b = checks.build(name)
tier = os.environ.get("TIER", "quick")
for sp in sys.argv[2:]:
    r = orch.run_space(b, sp, tier, as_bytes=int(os.environ.get("AS", "0")), hang_s=float(os.environ.get("HANG", "30")), args=os.environ.get("ARGS", "").split())
    sigs = {}
    for v in r.viol:
        sigs.setdefault(v['sig'], []).append(v)
    for s, vs in sorted(sigs.items()):
        print('  SIG', s, len(vs))
        print('     ', vs[0]['msg'][:300])
        print('     ', json.dumps(vs[0]['case'])[:int(os.environ.get("W", "700"))])
    print('  outcomes', dict(sorted(r.outcomes.items())[:12]), 'extra', r.extra)

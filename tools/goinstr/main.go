// goinstr: syntax-directed instrumentation of Go source for the controlled scheduler.
//
//	goinstr [-rename-main name] -out dir file.go...
//
// In the copies (and only there):
//   - imports "sync" / "sync/atomic" are redirected to the vsync / vatomic shims (same API);
//   - go f(a, b)            -> { zz1, zz2 := a, b; sched.Go(func() { f(zz1, zz2) }) }
//   - ch <- v, <-ch, close(ch) as statements -> sched.ChanSend/ChanRecv/ChanClose(ch) spliced in front
//   - select { ... }        -> switch sched.Select(hasDefault, cases...) { case i: <real op>; body }
//   - time.Sleep/Now/Tick, net.ListenUDP, net.UDPConn, signal.Notify -> venv seams
//   - make(chan T, <literal>) -> make(chan T, venv.QCap(<literal>)) (queue capacity is an environment parameter)
//   - func main             -> renamed (package main only, on request)
//
// Anything it cannot handle faithfully (a receive buried in an expression, range over a
// channel, a channel operand with side effects) is a hard error: exit status 2.
package main

import (
	"bytes"
	"flag"
	"fmt"
	"go/ast"
	"go/format"
	"go/parser"
	"go/token"
	"os"
	"path/filepath"
	"strconv"
	"strings"
)

const modPrefix = "github.com/EdgeCast/vflow/zzverif/"

var (
	out        = flag.String("out", "", "output directory")
	renameMain = flag.String("rename-main", "", "rename func main to this (package main)")
	callRename = flag.String("call-rename", "", "A=B,C=D: calls of the package-level function A become calls of B (the harness supplies B; used for main()'s constructors)")
	seamsOnly  = flag.Bool("seams-only", false, "rewrite the environment seams only (clock, sockets, signals, queue capacities); leave goroutines, channels and sync alone")
	tmpN       int
	usedSched  bool
	usedVenv   bool
)

func die(fset *token.FileSet, n ast.Node, msg string) {
	fmt.Fprintf(os.Stderr, "goinstr: %s: %s\n", fset.Position(n.Pos()), msg)
	os.Exit(2)
}

func sel(pkg, name string) ast.Expr { return &ast.SelectorExpr{X: ast.NewIdent(pkg), Sel: ast.NewIdent(name)} }

func call(fn ast.Expr, args ...ast.Expr) *ast.CallExpr { return &ast.CallExpr{Fun: fn, Args: args} }

// pure: identifier / selector chains / index of those with literal index - no side effects.
func pure(e ast.Expr) bool {
	switch x := e.(type) {
	case *ast.Ident:
		return true
	case *ast.SelectorExpr:
		return pure(x.X)
	case *ast.ParenExpr:
		return pure(x.X)
	}
	return false
}

type rewriter struct {
	fset *token.FileSet
	file *ast.File
}

// lastName: the identifier an operand ends in (x, a.b.x), "" otherwise
func lastName(e ast.Expr) string {
	switch x := e.(type) {
	case *ast.Ident:
		return x.Name
	case *ast.SelectorExpr:
		return x.Sel.Name
	case *ast.ParenExpr:
		return lastName(x.X)
	}
	return ""
}

func isRecv(e ast.Expr) (*ast.UnaryExpr, bool) {
	for {
		if p, ok := e.(*ast.ParenExpr); ok {
			e = p.X
			continue
		}
		break
	}
	u, ok := e.(*ast.UnaryExpr)
	if ok && u.Op == token.ARROW {
		return u, true
	}
	return nil, false
}

// containsRecv reports a receive anywhere inside e (other than e itself being one).
func containsRecv(n ast.Node) bool {
	found := false
	ast.Inspect(n, func(m ast.Node) bool {
		if _, ok := m.(*ast.FuncLit); ok {
			return false
		}
		if u, ok := m.(*ast.UnaryExpr); ok && u.Op == token.ARROW {
			found = true
		}
		return !found
	})
	return found
}

func (r *rewriter) schedCall(fn string, args ...ast.Expr) ast.Stmt {
	usedSched = true
	return &ast.ExprStmt{X: call(sel("zzsched", fn), args...)}
}

// stmts rewrites a statement list, splicing scheduling points in front of channel operations.
func (r *rewriter) stmts(list []ast.Stmt) []ast.Stmt {
	var outl []ast.Stmt
	for _, s := range list {
		outl = append(outl, r.stmt(s)...)
	}
	return outl
}

func (r *rewriter) block(b *ast.BlockStmt) {
	if b != nil {
		b.List = r.stmts(b.List)
	}
}

// exprs descends into expressions looking for function literals (whose bodies are rewritten)
// and rejects receives buried in expressions.
func (r *rewriter) expr(e ast.Node) {
	if e == nil {
		return
	}
	ast.Inspect(e, func(n ast.Node) bool {
		switch x := n.(type) {
		case *ast.FuncLit:
			r.block(x.Body)
			return false
		case *ast.UnaryExpr:
			if x.Op == token.ARROW {
				die(r.fset, x, "receive inside an expression is not supported")
			}
		}
		return true
	})
}

func (r *rewriter) stmt(s ast.Stmt) []ast.Stmt {
	switch x := s.(type) {
	case *ast.BlockStmt:
		r.block(x)
	case *ast.IfStmt:
		var pre ast.Stmt
		if x.Init != nil {
			if containsRecv(x.Init) {
				// "if v, ok := <-ch; cond {" : the init statement runs first in any case, so the scheduling point goes in
				// front of the whole if; the real receive stays where it is
				var u *ast.UnaryExpr
				switch in := x.Init.(type) {
				case *ast.AssignStmt:
					if len(in.Rhs) == 1 {
						u, _ = isRecv(in.Rhs[0])
					}
				case *ast.ExprStmt:
					u, _ = isRecv(in.X)
				}
				if u == nil || !pure(u.X) {
					die(r.fset, x, "receive in if-init that is not a plain '<-ch' of an identifier/selector")
				}
				pre = r.schedCall("ChanRecv", u.X)
			} else {
				r.expr(x.Init)
			}
		}
		r.expr(x.Cond)
		r.block(x.Body)
		if x.Else != nil {
			e := r.stmt(x.Else)
			if len(e) == 1 {
				x.Else = e[0]
			} else {
				x.Else = &ast.BlockStmt{List: e}
			}
		}
		if pre != nil {
			return []ast.Stmt{pre, x}
		}
	case *ast.ForStmt:
		if x.Init != nil {
			r.expr(x.Init)
		}
		if x.Cond != nil {
			r.expr(x.Cond)
		}
		if x.Post != nil {
			r.expr(x.Post)
		}
		r.block(x.Body)
	case *ast.RangeStmt:
		if containsRecv(x.X) {
			die(r.fset, x, "receive in range expression")
		}
		// range over a channel cannot be told from the syntax alone (no type information is used); an operand whose
		// NAME says channel (…Ch, …Chan, …Channel, ch - the repository's convention) is taken for one and the loop is
		// spelled out:  for { ChanRecv(ch); v, ok := <-ch; if !ok { break }; body }   (a wrong guess does not compile)
		if nm := lastName(x.X); pure(x.X) && x.Value == nil && (strings.HasSuffix(nm, "Ch") || strings.HasSuffix(nm, "Chan") || strings.HasSuffix(nm, "Channel") || strings.HasSuffix(nm, "chan") || nm == "ch" || nm == "c") && nm != "" {
			r.block(x.Body)
			var lhs ast.Expr = ast.NewIdent("_")
			tok := token.ASSIGN
			if x.Key != nil {
				lhs = x.Key
			}
			if x.Tok == token.DEFINE || x.Key == nil {
				tok = token.DEFINE
			}
			okID := ast.NewIdent("zzok")
			recv := &ast.AssignStmt{Lhs: []ast.Expr{lhs, okID}, Tok: tok, Rhs: []ast.Expr{&ast.UnaryExpr{Op: token.ARROW, X: x.X}}}
			brk := &ast.IfStmt{Cond: &ast.UnaryExpr{Op: token.NOT, X: okID}, Body: &ast.BlockStmt{List: []ast.Stmt{&ast.BranchStmt{Tok: token.BREAK}}}}
			body := append([]ast.Stmt{r.schedCall("ChanRecv", x.X), recv, brk}, x.Body.List...)
			return []ast.Stmt{&ast.ForStmt{Body: &ast.BlockStmt{List: body}}}
		}
		r.expr(x.X)
		r.block(x.Body)
	case *ast.SwitchStmt:
		if x.Init != nil {
			r.expr(x.Init)
		}
		if x.Tag != nil {
			r.expr(x.Tag)
		}
		for _, c := range x.Body.List {
			cc := c.(*ast.CaseClause)
			for _, e := range cc.List {
				r.expr(e)
			}
			cc.Body = r.stmts(cc.Body)
		}
	case *ast.TypeSwitchStmt:
		for _, c := range x.Body.List {
			cc := c.(*ast.CaseClause)
			cc.Body = r.stmts(cc.Body)
		}
	case *ast.LabeledStmt:
		in := r.stmt(x.Stmt)
		if len(in) == 1 {
			x.Stmt = in[0]
		} else {
			// points first, label stays on the real statement
			x.Stmt = in[len(in)-1]
			return append(in[:len(in)-1], x)
		}
	case *ast.SelectStmt:
		return []ast.Stmt{r.selectStmt(x)}
	case *ast.GoStmt:
		return r.goStmt(x)
	case *ast.SendStmt:
		if !pure(x.Chan) {
			die(r.fset, x, "channel operand of a send is not a plain identifier/selector")
		}
		r.expr(x.Value)
		return []ast.Stmt{r.schedCall("ChanSend", x.Chan), x}
	case *ast.ExprStmt:
		if u, ok := isRecv(x.X); ok {
			if !pure(u.X) {
				die(r.fset, x, "channel operand of a receive is not a plain identifier/selector")
			}
			return []ast.Stmt{r.schedCall("ChanRecv", u.X), x}
		}
		if c, ok := x.X.(*ast.CallExpr); ok {
			if id, ok := c.Fun.(*ast.Ident); ok && id.Name == "close" && len(c.Args) == 1 {
				if !pure(c.Args[0]) {
					die(r.fset, x, "operand of close is not a plain identifier/selector")
				}
				return []ast.Stmt{r.schedCall("ChanClose", c.Args[0]), x}
			}
		}
		r.expr(x.X)
	case *ast.AssignStmt:
		if len(x.Rhs) == 1 {
			if u, ok := isRecv(x.Rhs[0]); ok {
				if !pure(u.X) {
					die(r.fset, x, "channel operand of a receive is not a plain identifier/selector")
				}
				for _, l := range x.Lhs {
					r.expr(l)
				}
				return []ast.Stmt{r.schedCall("ChanRecv", u.X), x}
			}
		}
		for _, e := range x.Rhs {
			r.expr(e)
		}
		for _, e := range x.Lhs {
			r.expr(e)
		}
	case *ast.DeclStmt:
		r.expr(x.Decl)
	case *ast.ReturnStmt:
		for _, e := range x.Results {
			r.expr(e)
		}
	case *ast.DeferStmt:
		r.expr(x.Call)
	case *ast.IncDecStmt:
		r.expr(x.X)
	case *ast.BranchStmt, *ast.EmptyStmt:
	default:
		die(r.fset, s, fmt.Sprintf("unsupported statement %T", s))
	}
	return []ast.Stmt{s}
}

func (r *rewriter) goStmt(g *ast.GoStmt) []ast.Stmt {
	usedSched = true
	c := g.Call
	// go func() { ... }() without arguments
	if fl, ok := c.Fun.(*ast.FuncLit); ok && len(c.Args) == 0 {
		r.block(fl.Body)
		return []ast.Stmt{&ast.ExprStmt{X: call(sel("zzsched", "Go"), fl)}}
	}
	// evaluate the arguments now (go semantics), run the call in the new thread
	var pre []ast.Stmt
	var args []ast.Expr
	for _, a := range c.Args {
		r.expr(a)
		tmpN++
		name := "zzarg" + strconv.Itoa(tmpN)
		pre = append(pre, &ast.AssignStmt{Lhs: []ast.Expr{ast.NewIdent(name)}, Tok: token.DEFINE, Rhs: []ast.Expr{a}})
		args = append(args, ast.NewIdent(name))
	}
	if fl, ok := c.Fun.(*ast.FuncLit); ok {
		r.block(fl.Body)
	} else {
		r.expr(c.Fun)
	}
	inner := &ast.CallExpr{Fun: c.Fun, Args: args, Ellipsis: c.Ellipsis}
	lit := &ast.FuncLit{Type: &ast.FuncType{Params: &ast.FieldList{}}, Body: &ast.BlockStmt{List: []ast.Stmt{&ast.ExprStmt{X: inner}}}}
	pre = append(pre, &ast.ExprStmt{X: call(sel("zzsched", "Go"), lit)})
	return []ast.Stmt{&ast.BlockStmt{List: pre}}
}

func (r *rewriter) selectStmt(s *ast.SelectStmt) ast.Stmt {
	usedSched = true
	hasDefault := "false"
	var cases []ast.Expr
	sw := &ast.SwitchStmt{Body: &ast.BlockStmt{}}
	idx := 0
	for _, c := range s.Body.List {
		cc := c.(*ast.CommClause)
		body := r.stmts(cc.Body)
		if cc.Comm == nil {
			hasDefault = "true"
			sw.Body.List = append(sw.Body.List, &ast.CaseClause{List: nil, Body: body})
			continue
		}
		var ch ast.Expr
		dir := "Recv"
		switch m := cc.Comm.(type) {
		case *ast.SendStmt:
			ch, dir = m.Chan, "Send"
			r.expr(m.Value)
		case *ast.ExprStmt:
			u, ok := isRecv(m.X)
			if !ok {
				die(r.fset, m, "unsupported comm clause")
			}
			ch = u.X
		case *ast.AssignStmt:
			u, ok := isRecv(m.Rhs[0])
			if !ok {
				die(r.fset, m, "unsupported comm clause")
			}
			ch = u.X
		default:
			die(r.fset, cc, "unsupported comm clause")
		}
		if !pure(ch) {
			die(r.fset, cc, "channel operand of a select case is not a plain identifier/selector")
		}
		cases = append(cases, &ast.CompositeLit{Type: sel("zzsched", "Case"), Elts: []ast.Expr{
			&ast.KeyValueExpr{Key: ast.NewIdent("Ch"), Value: ch}, &ast.KeyValueExpr{Key: ast.NewIdent("Dir"), Value: sel("zzsched", dir)}}})
		sw.Body.List = append(sw.Body.List, &ast.CaseClause{List: []ast.Expr{&ast.BasicLit{Kind: token.INT, Value: strconv.Itoa(idx)}}, Body: append([]ast.Stmt{cc.Comm}, body...)})
		idx++
	}
	sw.Tag = call(sel("zzsched", "Select"), append([]ast.Expr{ast.NewIdent(hasDefault)}, cases...)...)
	return sw
}

// seams: qualified identifiers replaced by environment seams
var seams = map[string][2]string{
	"time.Sleep":    {"zzvenv", "Sleep"},
	"time.Now":      {"zzvenv", "Now"},
	"time.Tick":     {"zzvenv", "Tick"},
	"net.ListenUDP": {"zzvenv", "ListenUDP"},
	"net.Dial":      {"zzvenv", "Dial"},
	"net.UDPConn":   {"zzvenv", "UDPConn"},
	"signal.Notify": {"zzvenv", "SignalNotify"},
	"signal.Stop":   {"zzvenv", "SignalStop"},
	// main() sizes the scheduler to the configured CPU count: the harness decides that, not the code under test
	"runtime.GOMAXPROCS": {"zzvenv", "GOMAXPROCS"},
}

func main() {
	flag.Parse()
	if *out == "" || flag.NArg() == 0 {
		fmt.Fprintln(os.Stderr, "usage: goinstr -out dir file.go...")
		os.Exit(2)
	}
	for _, path := range flag.Args() {
		fset := token.NewFileSet()
		f, err := parser.ParseFile(fset, path, nil, parser.ParseComments)
		if err != nil {
			fmt.Fprintln(os.Stderr, "goinstr:", err)
			os.Exit(2)
		}
		// keep build constraints
		var constraints []string
		for _, cg := range f.Comments {
			if cg.End() < f.Package {
				for _, c := range cg.List {
					if strings.HasPrefix(c.Text, "//go:build") || strings.HasPrefix(c.Text, "// +build") {
						constraints = append(constraints, c.Text)
					}
				}
			}
		}
		f.Comments = nil
		f.Doc = nil
		usedSched, usedVenv = false, false
		r := &rewriter{fset: fset, file: f}
		// imports
		imported := map[string]string{} // local name -> path
		for _, im := range f.Imports {
			p, _ := strconv.Unquote(im.Path.Value)
			name := filepath.Base(p)
			if im.Name != nil {
				name = im.Name.Name
			}
			imported[name] = p
			switch {
			case *seamsOnly:
			case p == "sync":
				im.Path.Value = strconv.Quote(modPrefix + "vsync")
				im.Name = ast.NewIdent("sync")
			case p == "sync/atomic":
				im.Path.Value = strconv.Quote(modPrefix + "vatomic")
				im.Name = ast.NewIdent("atomic")
			}
			im.Doc, im.Comment = nil, nil
		}
		// seams (before statement rewriting; counts remaining uses of each import)
		ast.Inspect(f, func(n ast.Node) bool {
			// queue capacities are an environment parameter: make(chan T, <literal>) -> make(chan T, zzvenv.QCap(<literal>))
			// (the harness may scale them down; QCap returns its argument otherwise)
			if ce, ok := n.(*ast.CallExpr); ok && len(ce.Args) == 2 {
				if id, ok := ce.Fun.(*ast.Ident); ok && id.Name == "make" {
					if _, ok := ce.Args[0].(*ast.ChanType); ok {
						if lit, ok := ce.Args[1].(*ast.BasicLit); ok && lit.Kind == token.INT {
							ce.Args[1] = call(sel("zzvenv", "QCap"), lit)
							usedVenv = true
						}
					}
				}
			}
			if se, ok := n.(*ast.SelectorExpr); ok {
				if id, ok := se.X.(*ast.Ident); ok && id.Obj == nil {
					if to, ok := seams[id.Name+"."+se.Sel.Name]; ok && (imported[id.Name] == "time" || imported[id.Name] == "net" || imported[id.Name] == "os/signal" || imported[id.Name] == "runtime") {
						id.Name, se.Sel.Name = to[0], to[1]
						usedVenv = true
					}
				}
			}
			return true
		})
		if *callRename != "" {
			ren := map[string]string{}
			for _, kv := range strings.Split(*callRename, ",") {
				if p := strings.SplitN(kv, "=", 2); len(p) == 2 {
					ren[p[0]] = p[1]
				}
			}
			ast.Inspect(f, func(n ast.Node) bool {
				if ce, ok := n.(*ast.CallExpr); ok {
					if id, ok := ce.Fun.(*ast.Ident); ok {
						if to, ok := ren[id.Name]; ok {
							id.Name = to
						}
					}
				}
				return true
			})
		}
		for _, d := range f.Decls {
			switch x := d.(type) {
			case *ast.FuncDecl:
				x.Doc = nil
				if x.Name.Name == "main" && x.Recv == nil && *renameMain != "" && f.Name.Name == "main" {
					x.Name.Name = *renameMain
				}
				if !*seamsOnly {
					r.block(x.Body)
				}
			case *ast.GenDecl:
				x.Doc = nil
				if !*seamsOnly {
					r.expr(x)
				}
			}
		}
		// drop imports that lost their last use, add the shim imports
		uses := map[string]bool{}
		ast.Inspect(f, func(n ast.Node) bool {
			if se, ok := n.(*ast.SelectorExpr); ok {
				if id, ok := se.X.(*ast.Ident); ok {
					uses[id.Name] = true
				}
			}
			return true
		})
		for _, d := range f.Decls {
			gd, ok := d.(*ast.GenDecl)
			if !ok || gd.Tok != token.IMPORT {
				continue
			}
			var keep []ast.Spec
			for _, sp := range gd.Specs {
				im := sp.(*ast.ImportSpec)
				p, _ := strconv.Unquote(im.Path.Value)
				name := filepath.Base(p)
				if im.Name != nil {
					name = im.Name.Name
				}
				// only imports whose last use a seam may have taken away are candidates for removal (the package name of any
				// other import need not be the last element of its path, e.g. gopkg.in/yaml.v2)
				seamPkg := p == "time" || p == "net" || p == "os/signal" || p == "runtime" || p == "sync" || p == "sync/atomic" || strings.HasPrefix(p, modPrefix)
				if name == "_" || name == "." || uses[name] || !seamPkg {
					keep = append(keep, sp)
				}
			}
			if usedSched {
				keep = append(keep, &ast.ImportSpec{Name: ast.NewIdent("zzsched"), Path: &ast.BasicLit{Kind: token.STRING, Value: strconv.Quote(modPrefix + "sched")}})
				usedSched = false
			}
			if usedVenv {
				keep = append(keep, &ast.ImportSpec{Name: ast.NewIdent("zzvenv"), Path: &ast.BasicLit{Kind: token.STRING, Value: strconv.Quote(modPrefix + "venv")}})
				usedVenv = false
			}
			gd.Specs = keep
			if gd.Lparen == token.NoPos {
				gd.Lparen = gd.Pos()
				gd.Rparen = gd.End()
			}
		}
		if usedSched || usedVenv {
			die(fset, f, "file without an import declaration needs a shim import")
		}
		var buf bytes.Buffer
		for _, c := range constraints {
			buf.WriteString(c + "\n")
		}
		if len(constraints) > 0 {
			buf.WriteString("\n")
		}
		buf.WriteString("// Code generated by /verif/tools/goinstr from " + path + "; DO NOT EDIT.\n\n")
		if err := format.Node(&buf, token.NewFileSet(), f); err != nil {
			fmt.Fprintln(os.Stderr, "goinstr: print:", err)
			os.Exit(2)
		}
		dst := filepath.Join(*out, filepath.Base(path))
		os.MkdirAll(*out, 0755)
		if err := os.WriteFile(dst, buf.Bytes(), 0644); err != nil {
			fmt.Fprintln(os.Stderr, "goinstr:", err)
			os.Exit(2)
		}
	}
}
